----------------------------- MODULE Traceparent -----------------------------
(***************************************************************************)
(* C18 - a sampling decision is made once per trace and governs everything *)
(* inside it (crate emit_traceparent).                                     *)
(*                                                                         *)
(* Level B (the code, traceparent/src/lib.rs): tp[t] is the thread-local   *)
(* ACTIVE_TRACEPARENT (Option<ActiveTraceparent>: trace id, span id,       *)
(* flags, span_parent); a frame of TraceparentCtxt stores `slot` and       *)
(* `active`; enter/exit swap slot with tp[t] when active;                  *)
(* incoming_traceparent (Incoming below) is transcribed literally: props   *)
(* without a span id or with the active span id make no slot, a valid      *)
(* active traceparent makes the span a child that inherits the flags       *)
(* (masked), otherwise the span is a root and the sampler (only the        *)
(* filter has one) decides.  TraceparentFilter enables a span from the     *)
(* incoming flags, InSampledTraceFilter from the active flags.  The ids    *)
(* an event carries are synthesised from tp[t] only when it is sampled.    *)
(* The inner ThreadLocalCtxt never sees ids (ExcludeTraceparentProps) and  *)
(* is not modelled; spec/Ctxt.tla is its model.                            *)
(*                                                                         *)
(* SnapshotOnPush = TRUE: open_push/open_disabled of props that make no    *)
(* slot capture the active traceparent (Frame::current carries it to       *)
(* other threads and tasks) - the repaired code.  FALSE: such frames are   *)
(* inactive and leave tp[t] alone - the code as pinned; TLC then finds     *)
(* the hand-off counterexample (sampler consulted for a child span).       *)
(*                                                                         *)
(* Level A (the statement): every frame has a logical trace context `a`    *)
(* fixed at creation: none | [sampled/unsampled, trace, innermost span].   *)
(* A span begun where the context is none is the root of a new trace and   *)
(* is the only place where the sampler runs; its decision d is the         *)
(* trace's.  A valid header continues its trace with its flag; an invalid  *)
(* header is no trace.  The REPLAY predictions are derived from `a` only.  *)
(***************************************************************************)
EXTENDS Naturals, Sequences, FiniteSets, TLC, Json

CONSTANTS
    NThreads, MaxSpans, MaxFrames, MaxTasks, MaxDepth,
    Headers,         \* incoming headers: set of [tr, sp, fl] (0 = absent id)
    InSampled,       \* BOOLEAN: runtime filter is TraceparentFilter /\ in_sampled_trace_filter(true)
    SnapshotOnPush,  \* BOOLEAN: see above
    WithLazy,        \* BOOLEAN: async-fn spans (begin at first poll)
    WithCurrent,     \* BOOLEAN: Frame::current(rt.ctxt()) hand-off frames
    FrameKinds,      \* other frames a program may make - subset of
                     \*   "spanctxt": SpanCtxt::current(ctxt).push(ctxt), the other way to carry the span
                     \*               context elsewhere (the pushed span id equals the active one)
                     \*   "state"   : Tracestate::push - a new tracestate rides along with whatever
                     \*               traceparent is current; the trace context is untouched
                     \*   "root"    : Frame::root(ctxt, user props) - shows only its own properties, so it
                     \*               carries no trace (TraceparentCtxt::open_root)
    Sampler,         \* BOOLEAN: TRUE = the filter has a sampler (setup_with_sampler, new_with_sampler);
                     \* FALSE = it has none (emit_traceparent::setup(), TraceparentFilter::new()): every
                     \* new trace is sampled and there is nothing to consult
    CtxForms,        \* forms in which the runtime's context is used (see FormOpen below)
    Panics,          \* BOOLEAN: real panics in span bodies / polls, caught below everything entered
    Emit

Threads == 1..NThreads
Spans == 1..MaxSpans
Frames == 1..MaxFrames
Tasks == 1..MaxTasks
DrawTrace(i) == 2 * i - 1
DrawSpan(i) == 2 * i

\* Option<ActiveTraceparent>
None == [some |-> FALSE, tr |-> 0, sp |-> 0, fl |-> 0, pa |-> 0]
Tp(tr, sp, fl, pa) == [some |-> TRUE, tr |-> tr, sp |-> sp, fl |-> fl, pa |-> pa]
IsValid(x) == x.some /\ x.tr # 0 /\ x.sp # 0          \* Traceparent::is_valid

(***************************************************************************)
(* Context forms: "value" (TraceparentCtxt<ThreadLocalCtxt>), "ref" (&C),   *)
(* "option", "box", "arc", "dyn" (Box<dyn ErasedCtxt + Send + Sync>),       *)
(* "ambient" (the type-erased runtime of setup_with_sampler(..)             *)
(* .init_slot(..)).  The statement is form-independent: level A is the same *)
(* for every form and every form must refine it.  Level B: every wrapper    *)
(* forwards open_root / open_push / open_disabled unchanged - a rejected    *)
(* span's open_disabled must reach TraceparentCtxt::open_disabled (flags &  *)
(* EMPTY), not open_push(props) nor the trait default open_push(Empty).     *)
(* Every program is replayed through the forms in rotation.                 *)
(***************************************************************************)
AllCtxForms == {"value", "ref", "option", "box", "arc", "dyn", "ambient",
                \* without a sampler: emit_traceparent::setup()..init_slot(..), and
                \* Runtime::build(.., TraceparentFilter::new(), TraceparentCtxt::new(..), ..)
                "setup", "nosampler",
                \* TraceparentCtxt over a third-party stacking context written on the public trait with
                \* the default open_push / open_disabled (shadowed duplicates stay visible, first wins)
                "stack"}
ASSUME \A form \in CtxForms : (form \in {"setup", "nosampler"}) = ~Sampler
ASSUME FrameKinds \subseteq {"spanctxt", "state", "root"}
FormOpen(form, kind) == kind
ASSUME CtxForms \subseteq AllCtxForms /\ CtxForms # {}
ASSUME \A form \in CtxForms, kind \in {"push", "root", "disabled"} : FormOpen(form, kind) = kind

(***************************************************************************)
(* Invalid headers (no trace id or no span id, whatever the flag) are       *)
(* ignored: a span begun under one is the root of a new trace and the       *)
(* sampler decides.  Which trace id that new trace gets is not said: the    *)
(* code keeps the trace id of a sampled trace-id-only header.  Such a       *)
(* root's trace name is SOFT: it is bound to what is observed first and     *)
(* must then be consistent, but may coincide with the header's.  The        *)
(* level-A context of an invalid header's frame is "none" and only          *)
(* remembers the ignored trace id for that purpose.                         *)
(***************************************************************************)
SOFT == 1000
TrOK(xtr, atr) == atr >= SOFT \/ xtr = atr

\* level-A trace context
NoCtx == [k |-> "none", tr |-> 0, sp |-> 0]
Ctx(k, tr, sp) == [k |-> k, tr |-> tr, sp |-> sp]

VARIABLES
    tp,      \* B: thread -> Option<ActiveTraceparent>
    fr,      \* frame -> [st, slot, active (B), i (span whose guard travels with it), a (A)]
    stk,     \* thread -> sequence of [f, form, k, before]
    tk,      \* task -> [st, f]
    lazy,    \* task -> BOOLEAN
    sp,      \* span -> [st, en (B), root, d, pa (A: parent id), a (A: context inside the span)]
    slog,    \* B: spans for which the sampler ran, in order
    em,      \* B: what the last step sent to the emitter
    hist

tvars == <<tp, fr, stk, tk, lazy, sp, slog, em, hist>>
tview == <<tp, fr, stk, tk, lazy, sp, slog, em>>

NoFrame(st) == [st |-> st, slot |-> None, active |-> FALSE, i |-> 0, a |-> NoCtx]
NoTask(st) == [st |-> st, f |-> 0]
NoSpan == [st |-> "none", en |-> FALSE, root |-> FALSE, d |-> FALSE, pa |-> 0, a |-> NoCtx]

SetMin(S) == CHOOSE x \in S : \A y \in S : x <= y
FreeFrames == {f \in Frames : fr[f].st = "none"}
FreeTasks == {k \in Tasks : tk[k].st = "none"}
FreeSpans == {i \in Spans : sp[i].st = "none"}
NextFrame == SetMin(FreeFrames)
NextTask == SetMin(FreeTasks)
NextSpan == SetMin(FreeSpans)
Top(t) == stk[t][Len(stk[t])]

-----------------------------------------------------------------------------
(* Level A *)
LCtx(t) == IF stk[t] = <<>> THEN NoCtx ELSE fr[Top(t).f].a
LCtxIn(s, f, t) == IF s[t] = <<>> THEN NoCtx ELSE f[s[t][Len(s[t])].f].a

\* what the statement predicts for Traceparent::current() on every thread:
\* sampled: exactly (trace, innermost span, sampled); unsampled: the flag only; no trace: nothing
AObs(s, f) == [t \in Threads |-> LCtxIn(s, f, t)]

-----------------------------------------------------------------------------
(* Level B: incoming_traceparent(sampler, props, trace_flags) on thread t.
   ptr/psp: trace id / span id found in the props; allowed: 1 = flags that keep SAMPLED,
   0 = TraceFlags::EMPTY; hasSampler/d: the filter's sampler and what it would return.
   Result: [slot, consulted] *)
Incoming(t, ptr, psp, allowed, hasSampler, d) ==
    LET active == IF IsValid(tp[t]) THEN tp[t] ELSE None IN
    IF psp = 0 THEN [slot |-> None, consulted |-> FALSE]
    ELSE IF active.some /\ active.sp = psp THEN [slot |-> None, consulted |-> FALSE]
    ELSE IF active.some
         THEN [slot |-> Tp(active.tr, psp, IF allowed = 1 THEN active.fl ELSE 0, active.sp),
               consulted |-> FALSE]
    ELSE [slot |-> Tp(ptr, psp,
                      IF hasSampler THEN (IF allowed = 1 /\ d THEN 1 ELSE 0) ELSE allowed, 0),
          consulted |-> hasSampler /\ allowed = 1]

\* SpanCtxt::current(TraceparentCtxt): ids only when the active traceparent is sampled
CurIds(t) == IF tp[t].some /\ tp[t].fl = 1 THEN <<tp[t].tr, tp[t].sp, tp[t].pa>> ELSE <<0, 0, 0>>

\* SpanGuard::new on thread t for span i with sampler decision d:
\* [en, slot, active, consulted]
BeginB(t, i, d) ==
    LET cur == CurIds(t)
        ctr == IF cur[1] # 0 THEN cur[1] ELSE DrawTrace(i)      \* new_child
        cid == DrawSpan(i)
        flt == Incoming(t, ctr, cid, 1, Sampler, d)               \* TraceparentFilter::matches
        tpf == IF flt.slot.some THEN flt.slot.fl = 1 ELSE TRUE
        isf == IF tp[t].some THEN tp[t].fl = 1 ELSE TRUE           \* InSampledTraceFilter(true)
        en  == tpf /\ (InSampled => isf)
        opn == Incoming(t, ctr, cid, IF en THEN 1 ELSE 0, FALSE, FALSE)   \* open_push / open_disabled
    IN [en |-> en,
        slot |-> IF opn.slot.some THEN opn.slot ELSE IF SnapshotOnPush THEN tp[t] ELSE None,
        active |-> opn.slot.some \/ SnapshotOnPush,
        consulted |-> flt.consulted]

\* the A side of the same step
BeginA(t, i, d) ==
    LET L == LCtx(t) IN
    [root |-> L.k = "none",
     pa |-> IF L.k = "s" THEN L.sp ELSE 0,
     a |-> IF L.k = "none"
           THEN Ctx(IF d THEN "s" ELSE "u", DrawTrace(i) + (IF L.tr # 0 THEN SOFT ELSE 0), DrawSpan(i))
           ELSE IF L.k = "s" THEN Ctx("s", L.tr, DrawSpan(i))
           ELSE L]

SpanRec(t, i, d) ==
    [st |-> "live", en |-> BeginB(t, i, d).en, root |-> BeginA(t, i, d).root, d |-> d,
     pa |-> BeginA(t, i, d).pa, a |-> BeginA(t, i, d).a]
SpanFrame(t, i, d) ==
    [st |-> "idle", slot |-> BeginB(t, i, d).slot, active |-> BeginB(t, i, d).active, i |-> i,
     a |-> BeginA(t, i, d).a]

\* Ctxt::enter / exit of TraceparentCtxt: swap when active
EnterB(t, f) == IF fr[f].active THEN fr[f].slot ELSE tp[t]
EnterSlot(t, f) == IF fr[f].active THEN tp[t] ELSE fr[f].slot

\* what reaches the emitter (B): the span event of span i completing on t / an emit! on t
SpanOut(t, i) == [kind |-> "span", sent |-> sp[i].en, ids |-> CurIds(t), a |-> LCtx(t), i |-> i]
EventOut(t) == [kind |-> "event", sent |-> (InSampled => (IF tp[t].some THEN tp[t].fl = 1 ELSE TRUE)),
                ids |-> CurIds(t), a |-> LCtx(t), i |-> 0]

\* what the statement demands of it (A): must be sent / must not be sent / not said
SpanWant(i) == [kind |-> "span", must |-> IF sp[i].a.k = "s" THEN "yes" ELSE "no",
                ids |-> <<sp[i].a.tr, sp[i].a.sp, sp[i].pa>>]
EventWant(t) ==
    LET L == LCtx(t) IN
    [kind |-> "event",
     must |-> IF L.k = "s" THEN "yes" ELSE IF L.k = "u" /\ InSampled THEN "no" ELSE "any",
     ids |-> <<L.tr, L.sp, 0>>]

-----------------------------------------------------------------------------
Log(rec, wants) ==
    hist' = Append(hist, rec @@ [emits |-> wants, samples |-> Len(slog'), exp |-> AObs(stk', fr')])

Init ==
    /\ tp = [t \in Threads |-> None]
    /\ fr = [f \in Frames |-> NoFrame("none")]
    /\ stk = [t \in Threads |-> <<>>]
    /\ tk = [k \in Tasks |-> NoTask("none")]
    /\ lazy = [k \in Tasks |-> FALSE]
    /\ sp = [i \in Spans |-> NoSpan]
    /\ slog = <<>>
    /\ em = <<>>
    /\ hist = <<>>

Push(t, f, form, k) ==
    /\ stk' = [stk EXCEPT ![t] = Append(@, [f |-> f, form |-> form, k |-> k, before |-> tp[t]])]
    /\ tp' = [tp EXCEPT ![t] = EnterB(t, f)]

\* leave the top entry: swap back when active
PopTp(t) == LET f == Top(t).f IN IF fr[f].active THEN fr[f].slot ELSE tp[t]
PopSlot(t) == LET f == Top(t).f IN IF fr[f].active THEN tp[t] ELSE fr[f].slot

\* #[emit::span] sync fn / new_span! + call / SpanGuard::new + enter: begin and enter.
\* d is the sampler's answer if it is asked (it only matters for a root)
Begin(t, d) ==
    /\ FreeSpans # {} /\ FreeFrames # {}
    /\ Len(stk[t]) < MaxDepth
    /\ d \/ LCtx(t).k = "none"
    /\ d \/ Sampler
    /\ LET i == NextSpan
           f == NextFrame
           nf == SpanFrame(t, i, d)
       IN /\ sp' = [sp EXCEPT ![i] = SpanRec(t, i, d)]
          /\ slog' = IF BeginB(t, i, d).consulted THEN Append(slog, i) ELSE slog
          /\ fr' = [fr EXCEPT ![f] = [nf EXCEPT !.st = "in", !.slot = IF nf.active THEN tp[t] ELSE nf.slot]]
          /\ stk' = [stk EXCEPT ![t] = Append(@, [f |-> f, form |-> "span", k |-> 0, before |-> tp[t]])]
          /\ tp' = [tp EXCEPT ![t] = IF nf.active THEN nf.slot ELSE tp[t]]
          /\ em' = <<>>
          /\ UNCHANGED <<tk, lazy>>
          /\ Log([op |-> "begin", t |-> t, i |-> i, f |-> f, d |-> d, root |-> BeginA(t, i, d).root, atr |-> BeginA(t, i, d).a.tr], <<>>)

\* new_span! / SpanGuard::new without entering
New(t, d) ==
    /\ FreeSpans # {} /\ FreeFrames # {}
    /\ d \/ LCtx(t).k = "none"
    /\ d \/ Sampler
    /\ LET i == NextSpan
           f == NextFrame
       IN /\ sp' = [sp EXCEPT ![i] = SpanRec(t, i, d)]
          /\ slog' = IF BeginB(t, i, d).consulted THEN Append(slog, i) ELSE slog
          /\ fr' = [fr EXCEPT ![f] = SpanFrame(t, i, d)]
          /\ em' = <<>>
          /\ UNCHANGED <<tp, stk, tk, lazy>>
          /\ Log([op |-> "new", t |-> t, i |-> i, f |-> f, d |-> d, root |-> BeginA(t, i, d).root, atr |-> BeginA(t, i, d).a.tr], <<>>)

\* Quantifier restriction: a frame that carries no trace (Frame::current taken outside any
\* trace, an invalid header) is only entered outside any trace.  Whether such a frame hides
\* the trace it is entered in is not said by the statement.
EnterOK(t, f) == fr[f].a.k = "none" => LCtx(t).k = "none"

Enter(t, f) ==
    /\ fr[f].st = "idle"
    /\ Len(stk[t]) < MaxDepth
    /\ EnterOK(t, f)
    /\ Push(t, f, IF fr[f].i # 0 THEN "span" ELSE "guard", 0)
    /\ fr' = [fr EXCEPT ![f].st = "in", ![f].slot = EnterSlot(t, f)]
    /\ em' = <<>>
    /\ UNCHANGED <<tk, lazy, sp, slog>>
    /\ Log([op |-> "enter", t |-> t, f |-> f, i |-> fr[f].i], <<>>)

End(t) ==
    /\ stk[t] # <<>>
    /\ Top(t).form = "span"
    /\ LET f == Top(t).f
           i == fr[f].i
       IN /\ em' = <<SpanOut(t, i)>>
          /\ sp' = [sp EXCEPT ![i].st = "done"]
          /\ tp' = [tp EXCEPT ![t] = PopTp(t)]
          /\ fr' = [fr EXCEPT ![f] = NoFrame("dead")]
          /\ stk' = [stk EXCEPT ![t] = SubSeq(@, 1, Len(@) - 1)]
          /\ UNCHANGED <<tk, lazy, slog>>
          /\ Log([op |-> "end", t |-> t, f |-> f, i |-> i], <<SpanWant(i)>>)

Exit(t) ==
    /\ stk[t] # <<>>
    /\ Top(t).form = "guard"
    /\ tp' = [tp EXCEPT ![t] = PopTp(t)]
    /\ fr' = [fr EXCEPT ![Top(t).f].st = "idle", ![Top(t).f].slot = PopSlot(t)]
    /\ stk' = [stk EXCEPT ![t] = SubSeq(@, 1, Len(@) - 1)]
    /\ em' = <<>>
    /\ UNCHANGED <<tk, lazy, sp, slog>>
    /\ Log([op |-> "exit", t |-> t, f |-> Top(t).f], <<>>)

Spawn(t, f) ==
    /\ fr[f].st = "idle"
    /\ FreeTasks # {}
    /\ fr' = [fr EXCEPT ![f].st = "task"]
    /\ tk' = [tk EXCEPT ![NextTask] = [st |-> "idle", f |-> f]]
    /\ em' = <<>>
    /\ UNCHANGED <<tp, stk, lazy, sp, slog>>
    /\ Log([op |-> "spawn", t |-> t, f |-> f, k |-> NextTask, i |-> fr[f].i], <<>>)

Lazy(t) ==
    /\ WithLazy
    /\ FreeTasks # {} /\ FreeSpans # {} /\ FreeFrames # {}
    /\ tk' = [tk EXCEPT ![NextTask] = [st |-> "idle", f |-> 0]]
    /\ lazy' = [lazy EXCEPT ![NextTask] = TRUE]
    /\ em' = <<>>
    /\ UNCHANGED <<tp, fr, stk, sp, slog>>
    /\ Log([op |-> "lazy", t |-> t, k |-> NextTask], <<>>)

PollLazy(t, k, d) ==
    /\ tk[k].st = "idle" /\ lazy[k]
    /\ FreeSpans # {} /\ FreeFrames # {}
    /\ Len(stk[t]) < MaxDepth
    /\ d \/ LCtx(t).k = "none"
    /\ d \/ Sampler
    /\ LET i == NextSpan
           f == NextFrame
           nf == SpanFrame(t, i, d)
       IN /\ sp' = [sp EXCEPT ![i] = SpanRec(t, i, d)]
          /\ slog' = IF BeginB(t, i, d).consulted THEN Append(slog, i) ELSE slog
          /\ fr' = [fr EXCEPT ![f] = [nf EXCEPT !.st = "in", !.slot = IF nf.active THEN tp[t] ELSE nf.slot]]
          /\ stk' = [stk EXCEPT ![t] = Append(@, [f |-> f, form |-> "poll", k |-> k, before |-> tp[t]])]
          /\ tp' = [tp EXCEPT ![t] = IF nf.active THEN nf.slot ELSE tp[t]]
          /\ tk' = [tk EXCEPT ![k] = [st |-> "run", f |-> f]]
          /\ lazy' = [lazy EXCEPT ![k] = FALSE]
          /\ em' = <<>>
          /\ Log([op |-> "poll", t |-> t, k |-> k, i |-> i, f |-> f, d |-> d, first |-> TRUE,
                  root |-> BeginA(t, i, d).root, atr |-> BeginA(t, i, d).a.tr], <<>>)

Poll(t, k) ==
    /\ tk[k].st = "idle" /\ ~lazy[k]
    /\ Len(stk[t]) < MaxDepth
    /\ EnterOK(t, tk[k].f)
    /\ Push(t, tk[k].f, "poll", k)
    /\ fr' = [fr EXCEPT ![tk[k].f].st = "in", ![tk[k].f].slot = EnterSlot(t, tk[k].f)]
    /\ tk' = [tk EXCEPT ![k].st = "run"]
    /\ em' = <<>>
    /\ UNCHANGED <<lazy, sp, slog>>
    /\ Log([op |-> "poll", t |-> t, k |-> k, first |-> FALSE], <<>>)

Yield(t) ==
    /\ stk[t] # <<>>
    /\ Top(t).form = "poll"
    /\ tp' = [tp EXCEPT ![t] = PopTp(t)]
    /\ fr' = [fr EXCEPT ![Top(t).f].st = "task", ![Top(t).f].slot = PopSlot(t)]
    /\ stk' = [stk EXCEPT ![t] = SubSeq(@, 1, Len(@) - 1)]
    /\ tk' = [tk EXCEPT ![Top(t).k].st = "idle"]
    /\ em' = <<>>
    /\ UNCHANGED <<lazy, sp, slog>>
    /\ Log([op |-> "yield", t |-> t, k |-> Top(t).k], <<>>)

Complete(t) ==
    /\ stk[t] # <<>>
    /\ Top(t).form = "poll"
    /\ LET f == Top(t).f
           i == fr[f].i
       IN /\ em' = IF i # 0 THEN <<SpanOut(t, i)>> ELSE <<>>
          /\ sp' = IF i # 0 THEN [sp EXCEPT ![i].st = "done"] ELSE sp
          /\ tp' = [tp EXCEPT ![t] = PopTp(t)]
          /\ fr' = [fr EXCEPT ![f] = NoFrame("dead")]
          /\ stk' = [stk EXCEPT ![t] = SubSeq(@, 1, Len(@) - 1)]
          /\ tk' = [tk EXCEPT ![Top(t).k] = NoTask("done")]
          /\ UNCHANGED <<lazy, slog>>
          /\ Log([op |-> "complete", t |-> t, k |-> Top(t).k, i |-> i],
                 IF i # 0 THEN <<SpanWant(i)>> ELSE <<>>)

Event(t) ==
    /\ em' = <<EventOut(t)>>
    /\ UNCHANGED <<tp, fr, stk, tk, lazy, sp, slog>>
    /\ Log([op |-> "event", t |-> t], <<EventWant(t)>>)

\* A real panic! in the innermost body on thread t, caught below everything t has entered:
\* every guard is dropped innermost first; a span on the way completes inside its frame (its
\* guard decides from `en` whether anything is sent; level and error are C05's), then its frame
\* is left and the slot swapped back.  Result: [tp of t, fr, tk, em].
RECURSIVE Unw(_, _, _, _, _)
Unw(s, x, f, k, e) ==
    IF s = <<>> THEN [tp |-> x, fr |-> f, tk |-> k, em |-> e]
    ELSE LET en == s[Len(s)]
             fi == en.f
             i == f[fi].i
             ids == IF x.some /\ x.fl = 1 THEN <<x.tr, x.sp, x.pa>> ELSE <<0, 0, 0>>
             rec == IF i # 0 THEN <<[kind |-> "span", sent |-> sp[i].en, ids |-> ids, a |-> f[fi].a, i |-> i]>>
                    ELSE <<>>
             x1 == IF f[fi].active THEN f[fi].slot ELSE x
             s1 == IF f[fi].active THEN x ELSE f[fi].slot
             f1 == IF en.form = "guard" THEN [f EXCEPT ![fi].st = "idle", ![fi].slot = s1]
                   ELSE [f EXCEPT ![fi] = NoFrame("dead")]
             k1 == IF en.form = "poll" THEN [k EXCEPT ![en.k] = NoTask("done")] ELSE k
         IN Unw(SubSeq(s, 1, Len(s) - 1), x1, f1, k1, e \o rec)

\* what the statement demands of the spans that complete while unwinding, innermost first
RECURSIVE UnwWants(_)
UnwWants(s) ==
    IF s = <<>> THEN <<>>
    ELSE LET i == fr[s[Len(s)].f].i
         IN (IF i # 0 THEN <<SpanWant(i)>> ELSE <<>>) \o UnwWants(SubSeq(s, 1, Len(s) - 1))

StackSpans(t) == {fr[stk[t][n].f].i : n \in 1..Len(stk[t])} \ {0}

Panic(t) ==
    /\ Panics
    /\ stk[t] # <<>>
    /\ LET u == Unw(stk[t], tp[t], fr, tk, <<>>) IN
          /\ tp' = [tp EXCEPT ![t] = u.tp]
          /\ fr' = u.fr
          /\ tk' = u.tk
          /\ em' = u.em
    /\ stk' = [stk EXCEPT ![t] = <<>>]
    /\ sp' = [i \in Spans |-> IF i \in StackSpans(t) THEN [sp[i] EXCEPT !.st = "done"] ELSE sp[i]]
    /\ UNCHANGED <<lazy, slog>>
    /\ Log([op |-> "panic", t |-> t], UnwWants(stk[t]))

\* Traceparent::try_from_str(header).push() on thread t
Header(t, h) ==
    /\ FreeFrames # {}
    /\ fr' = [fr EXCEPT ![NextFrame] =
                [st |-> "idle",
                 slot |-> Tp(h.tr, h.sp, h.fl,
                             IF tp[t].some /\ tp[t].tr # 0 /\ tp[t].tr = h.tr THEN tp[t].sp ELSE 0),
                 active |-> TRUE, i |-> 0,
                 a |-> IF h.tr # 0 /\ h.sp # 0 THEN Ctx(IF h.fl = 1 THEN "s" ELSE "u", h.tr, h.sp)
                       ELSE Ctx("none", h.tr, 0)]]      \* ignored; the trace id is only remembered
    /\ em' = <<>>
    /\ UNCHANGED <<tp, stk, tk, lazy, sp, slog>>
    /\ Log([op |-> "header", t |-> t, f |-> NextFrame, h |-> h], <<>>)

\* Frame::current(rt.ctxt()): the documented way to carry the context to another thread / task
Current(t) ==
    /\ WithCurrent
    /\ FreeFrames # {}
    /\ fr' = [fr EXCEPT ![NextFrame] =
                [st |-> "idle",
                 slot |-> IF SnapshotOnPush THEN tp[t] ELSE None,
                 active |-> SnapshotOnPush, i |-> 0, a |-> LCtx(t)]]
    /\ em' = <<>>
    /\ UNCHANGED <<tp, stk, tk, lazy, sp, slog>>
    /\ Log([op |-> "current", t |-> t, f |-> NextFrame], <<>>)

\* The other frames (FrameKinds).  Level A: a root frame carries nothing; the others carry the
\* context they were made in, like Frame::current.  Level B: open_root makes a slot only from
\* props with a span id (user props have none) and is otherwise INACTIVE (enter / exit leave the
\* thread's traceparent alone); Tracestate::push stores the active traceparent (or an empty, sampled one)
\* with the new state; SpanCtxt::current().push() goes through open_push with the ids that are
\* ambient (none unless sampled) - the same span id as the active one makes no slot.
CarryFrame(t, kind) ==
    CASE kind = "root" -> [st |-> "idle", slot |-> None, active |-> FALSE, i |-> 0, a |-> NoCtx]
      \* (Traceparent::empty(): no ids, flag SAMPLED - so that filters reading the flag let a new trace start)
      [] kind = "state" -> [st |-> "idle", slot |-> IF tp[t].some THEN tp[t] ELSE Tp(0, 0, 1, 0),
                            active |-> TRUE, i |-> 0, a |-> LCtx(t)]
      [] OTHER -> LET cur == CurIds(t)
                      opn == Incoming(t, cur[1], cur[2], 1, FALSE, FALSE)
                  IN [st |-> "idle",
                      slot |-> IF opn.slot.some THEN opn.slot ELSE IF SnapshotOnPush THEN tp[t] ELSE None,
                      active |-> opn.slot.some \/ SnapshotOnPush, i |-> 0, a |-> LCtx(t)]

Carry(t, kind) ==
    /\ FreeFrames # {}
    /\ fr' = [fr EXCEPT ![NextFrame] = CarryFrame(t, kind)]
    /\ em' = <<>>
    /\ UNCHANGED <<tp, stk, tk, lazy, sp, slog>>
    /\ Log([op |-> "carry", t |-> t, f |-> NextFrame, kind |-> kind], <<>>)

Next ==
    \/ \E t \in Threads, kind \in FrameKinds : Carry(t, kind)
    \/ \E t \in Threads, d \in BOOLEAN : Begin(t, d)
    \/ \E t \in Threads, d \in BOOLEAN : New(t, d)
    \/ \E t \in Threads, f \in Frames : Enter(t, f)
    \/ \E t \in Threads : End(t)
    \/ \E t \in Threads : Exit(t)
    \/ \E t \in Threads, f \in Frames : Spawn(t, f)
    \/ \E t \in Threads : Lazy(t)
    \/ \E t \in Threads, k \in Tasks, d \in BOOLEAN : PollLazy(t, k, d)
    \/ \E t \in Threads, k \in Tasks : Poll(t, k)
    \/ \E t \in Threads : Yield(t)
    \/ \E t \in Threads : Complete(t)
    \/ \E t \in Threads : Event(t)
    \/ \E t \in Threads : Panic(t)
    \/ \E t \in Threads, h \in Headers : Header(t, h)
    \/ \E t \in Threads : Current(t)

Spec == Init /\ [][Next]_tvars

-----------------------------------------------------------------------------
(* Properties *)
Started == {i \in Spans : sp[i].st # "none"}
Count(i) == Cardinality({n \in 1..Len(slog) : slog[n] = i})

\* the sampler ran exactly once for every trace started here, at its root span, and never
\* for a child span or a span of a trace continued from a valid header
SamplerOncePerTrace ==
    /\ \A i \in Started : Count(i) = IF sp[i].root /\ Sampler THEN 1 ELSE 0
    /\ \A n \in 1..Len(slog) : slog[n] \in Started

\* a span is enabled exactly when its trace is sampled: the decision (or the header's flag) governs
DecisionGoverns == \A i \in Started : sp[i].en = (sp[i].a.k = "s")

\* B agrees with A about what a frame carries / a thread sees
Matches(x, a) ==
    CASE a.k = "s" -> x.some /\ TrOK(x.tr, a.tr) /\ x.sp = a.sp /\ x.fl = 1
      [] a.k = "u" -> x.some /\ x.fl = 0
      [] OTHER -> ~IsValid(x)

\* inside an unsampled trace: the current traceparent reports unsampled, no span is emitted,
\* and with the sampled-trace filter no event either
UnsampledSilent ==
    /\ \A t \in Threads : LCtx(t).k = "u" => (tp[t].some /\ tp[t].fl = 0)
    /\ \A n \in 1..Len(em) : (em[n].a.k = "u" /\ (em[n].kind = "span" \/ InSampled)) => ~em[n].sent

\* inside a sampled trace: the current traceparent is exactly (trace, innermost span, sampled),
\* everything is emitted and carries those ids; a span's parent is the caller's span
SampledConsistent ==
    /\ \A t \in Threads : LCtx(t).k = "s" => Matches(tp[t], LCtx(t))
    /\ \A n \in 1..Len(em) : em[n].a.k = "s" =>
          /\ em[n].sent
          /\ TrOK(em[n].ids[1], em[n].a.tr) /\ em[n].ids[2] = em[n].a.sp
          /\ (em[n].kind = "span" => em[n].ids[3] = sp[em[n].i].pa)

\* outside any trace there is no valid traceparent (so the next span is a root)
NoTraceNoParent == \A t \in Threads : LCtx(t).k = "none" => ~IsValid(tp[t])

\* a frame that is not entered carries its own context (moving / re-entering is safe)
FrameCarries ==
    \A f \in Frames : fr[f].st \in {"idle", "task"} =>
        \* (a frame that carries no trace may be inactive: it then leaves the thread's traceparent alone)
        ((fr[f].active \/ fr[f].a.k = "none") /\ Matches(fr[f].slot, fr[f].a))

\* leaving a span, a header scope or a carried frame restores the previous traceparent
Restored ==
    [][\A t \in Threads : Len(stk'[t]) < Len(stk[t]) => tp'[t] = stk[t][Len(stk'[t]) + 1].before]_tvars

EmitReplay == Emit => PrintT(<<"REPLAY", ToJson([steps |-> hist'])>>)
=============================================================================
