------------------------------ MODULE MCLevel ------------------------------
EXTENDS Level, LevelParse
\* byte order: "a" < "aa" < "b" < "bb" < "c" < "d" < "x" < "é"
MC_SegName == <<"a", "aa", "b", "bb", "c", "d", "x", "é">>
\* a, aa, b, a::b, a::bb, a::b::c, aa::b, é::a
MC_RegPaths == {<<1>>, <<2>>, <<3>>, <<1, 3>>, <<1, 4>>, <<1, 3, 5>>, <<2, 3>>, <<8, 1>>}
\* registered paths plus c, a::x, a::b::c::d, é, aa::bb, b::a
MC_Modules == MC_RegPaths \cup {<<5>>, <<1, 7>>, <<1, 3, 5, 6>>, <<8>>, <<2, 4>>, <<3, 1>>}
\* textual level values; the table of their lenient parse is printed once for the harness
LevelTokens == {
    <<"w", "a", "r", "n">>,
    <<"W", "R", "N">>,
    <<"W", "a", "r", "n", "i", "n", "g", "(", "3", ")">>,
    <<"e">>,
    <<"x">>,
    <<>>,
    <<" ", "i", "n", "f", "o", " ">>,
    <<"I", "N", "F", "O", "X">>,
    <<"i", "n", "f">>,
    <<"d", "e", "b", "u", "g">>,
    <<"d", "b", "g">>,
    <<"D", "B", "G", "X">>,
    <<"E", "\t", "r", "r">>,
    <<"é", "r", "r">>,
    <<"i", "é">>,
    <<"w", "a", "r", "n", "1">>,
    <<"w", " ", "a", "r", "n">>,
    <<"i", "n", "f", "o", "r", "m", "a", "t", "i", "o", "n">>,
    <<"i", "n", "f", "o", "r", "m", "a", "t", "i", "o", "n", "s">>,
    <<"D">>,
    <<"w", "a">>,
    <<"w", "x">>,
    <<"3">>,
    <<" ", " ">>,
    <<"e", "r", "r", "o", "r", "4">>,
    <<"e", "R", "R", "o", "R">>}

ASSUME PrintT(<<"TOKENS", ToJson({[text |-> t, lvl |-> ParseLevel(t)] : t \in LevelTokens})>>)
=============================================================================
