------------------------------ MODULE MCLevel ------------------------------
EXTENDS Level, LevelParse
\* byte order: "a" < "aa" < "aé" < "b" < "bb" < "c" < "d" < "x" < "é" < "éa"
MC_SegName == <<"a", "aa", "aé", "b", "bb", "c", "d", "x", "é", "éa">>
MC_SegChars == << <<"a">>, <<"a", "a">>, <<"a", "é">>, <<"b">>, <<"b", "b">>, <<"c">>, <<"d">>, <<"x">>, <<"é">>, <<"é", "a">> >>
\* a, aa, b, a::b, a::bb, a::b::c, aa::b, é::a
MC_RegPaths == {<<1>>, <<2>>, <<4>>, <<1, 4>>, <<1, 5>>, <<1, 4, 6>>, <<2, 4>>, <<9, 1>>}
\* registered paths plus c, a::x, a::b::c::d, é, aa::bb, b::a, and for the byte-level rule of
\* is_child_of: aé, aé::b (a is a byte prefix, the cut falls before a 2-byte character), éa, éa::a (é is a
\* character prefix), x::a, a::é (the length of a registered text falls inside a character or beyond the end)
MC_Modules == MC_RegPaths \cup {<<6>>, <<1, 8>>, <<1, 4, 6, 7>>, <<9>>, <<2, 5>>, <<4, 1>>,
                                <<3>>, <<3, 4>>, <<10>>, <<10, 1>>, <<8, 1>>, <<1, 9>>}
RECURSIVE ConcatS(_)
ConcatS(q) == IF q = <<>> THEN "" ELSE Head(q) \o ConcatS(Tail(q))
ASSUME Len(MC_SegChars) = Len(MC_SegName) /\ \A i \in 1..Len(MC_SegName) : ConcatS(MC_SegChars[i]) = MC_SegName[i]
\* the relation is_child_of computes is the statement's ancestor-or-self relation, on every pair
ASSUME ChildOfIsSelfOrAncestor
ASSUME ChildOfLine
\* textual level values; the table of their lenient parse is printed once for the harness
LevelTokens == {
    <<"w", "a", "r", "n">>,
    <<"W", "R", "N">>,
    <<"W", "a", "r", "n", "i", "n", "g", "(", "3", ")">>,
    <<"e">>,
    <<"x">>,
    <<>>,
    <<" ", "i", "n", "f", "o", " ">>,
    <<"I", "N", "F", "O", "X">>,
    <<"i", "n", "f">>,
    <<"d", "e", "b", "u", "g">>,
    <<"d", "b", "g">>,
    <<"D", "B", "G", "X">>,
    <<"E", "\t", "r", "r">>,
    <<"é", "r", "r">>,
    <<"i", "é">>,
    <<"w", "a", "r", "n", "1">>,
    <<"w", " ", "a", "r", "n">>,
    <<"i", "n", "f", "o", "r", "m", "a", "t", "i", "o", "n">>,
    <<"i", "n", "f", "o", "r", "m", "a", "t", "i", "o", "n", "s">>,
    <<"D">>,
    <<"w", "a">>,
    <<"w", "x">>,
    <<"3">>,
    <<" ", " ">>,
    <<"e", "r", "r", "o", "r", "4">>,
    <<"e", "R", "R", "o", "R">>}

\* white space of every class, independently before and after a level word (level A: str::trim + the
\* lenient grammar).  All 49 x 4 paddings go to the plain MinLevelFilter (min x unleveled default);
\* the map is also asked with the paddings of one side only and of the same class on both sides.
PadWords == { <<"w", "a", "r", "n">>, <<"E", "R", "R", "O", "R">>, <<"d", "b", "g">>, <<"I", "n", "f", "o", "(", "2", ")">> }
Padded(W, sides) == {p[1] \o w \o p[2] : w \in W, p \in sides}
AllSides == WsClasses \X WsClasses
MapSides == {p \in AllSides : p[1] = <<>> \/ p[2] = <<>> \/ p[1] = p[2]}
MapPadTokens == Padded({<<"E", "R", "R", "O", "R">>}, MapSides)
FilterPadTokens == Padded(PadWords, AllSides)
ASSUME \A w \in PadWords, p \in AllSides : ParseLevel(p[1] \o w \o p[2]) = ParseLevel(w) /\ ParseLevel(w) # 0

\* every spelling of every level (LevelParse.tla), cut at every length the lenient grammar accepts (1..Len)
\* and at the first it rejects (the word and one more letter), in three letter cases, bare and followed by
\* a digit / a bracket (the suffix classes that end a match).  Where two spellings of a level diverge
\* (deb / dbg, war / wrn) and at the neighbouring lengths of the one-spelling levels (inf / info, err / erro)
\* the map is asked as well.
LoC(c) == IF c \in UpperSet THEN Lower[CHOOSE i \in 1..26 : UpperS[i] = c] ELSE c
CasedW(w, mode) == [i \in 1..Len(w) |-> IF mode = 1 \/ (mode = 3 /\ i = 1) THEN w[i] ELSE LoC(w[i])]
Spellings == {INFORMATION, DEBUG, DBG, ERROR, WARNING, WRN}
Cut(w, n) == IF n <= Len(w) THEN SubSeq(w, 1, n) ELSE w \o <<"X">>
PrefixSuffixes == {<<>>, <<"1">>, <<"(", "2", ")">>}
PrefixTokens == {CasedW(Cut(w, n), mode) \o sfx : w \in Spellings, n \in 1..12, mode \in 1..3, sfx \in PrefixSuffixes}
DivergingPrefixes == {<<"D", "E", "B">>, <<"D", "B", "G">>, <<"W", "A", "R">>, <<"W", "R", "N">>,
                      <<"I", "N", "F">>, <<"I", "N", "F", "O">>, <<"E", "R", "R">>, <<"E", "R", "R", "O">>}
MapPrefixTokens == {CasedW(w, 2) : w \in DivergingPrefixes} \cup {w \o <<"1">> : w \in {<<"D", "E", "B">>, <<"W", "A", "R">>}}
ASSUME MapPrefixTokens \subseteq PrefixTokens
\* every proper prefix and every whole spelling is a level, whatever the case and the suffix; one letter more is none
ASSUME \A w \in Spellings : \A n \in 1..Len(w), mode \in 1..3, sfx \in PrefixSuffixes : ParseLevel(CasedW(Cut(w, n), mode) \o sfx) # 0
ASSUME \A w \in Spellings : ParseLevel(Cut(w, Len(w) + 1)) = 0

\* map: the token is also used in the module x token matrix of every MinLevelPathMap transition
ASSUME PrintT(<<"TOKENS", ToJson({[text |-> t, lvl |-> ParseLevel(t), map |-> TRUE] : t \in LevelTokens \cup MapPadTokens \cup MapPrefixTokens}
                                  \cup {[text |-> t, lvl |-> ParseLevel(t), map |-> FALSE] :
                                            t \in (FilterPadTokens \cup PrefixTokens) \ (LevelTokens \cup MapPadTokens \cup MapPrefixTokens)})>>)
=============================================================================
