------------------------------ MODULE CapWindow ------------------------------
(***************************************************************************)
(* X10 - the receiver's buffer pre-sizing (batcher/src/lib.rs `Capacity`). *)
(*                                                                         *)
(* Every non-empty batch the receiver takes makes it create the next       *)
(* buffer with `Channel::with_capacity(hint)`.                             *)
(* Level A (the comments / intent): the hint covers the largest of the     *)
(* last W = 32 batches, with one tenth of it (at least one) to spare, and  *)
(* never wraps around: hint = min(usize::MAX, m + max(1, m div 10)) with m *)
(* the largest of the last W lengths; hence hint >= every one of them,     *)
(* hint <= m + m/10 + 1, and a burst is forgotten W batches later.         *)
(* Level B (the code): a circular array of W values written at idx mod W,  *)
(* idx wrapping_add(1), max over the whole array (zeros at the start),     *)
(* saturating_add.                                                         *)
(*                                                                         *)
(* Lengths are exact naturals in base 10^9 with three digits (usize::MAX   *)
(* does not fit TLC's integers).  A script is a sequence of runs           *)
(* [len, count]; one behaviour = pick a script, fold it, compare.          *)
(***************************************************************************)
EXTENDS Naturals, Sequences, FiniteSets, TLC, Json

CONSTANTS W, Scripts, Emit

VARIABLES case, res, phase
vars == <<case, res, phase>>

G == 1000000000
Zero3 == <<0, 0, 0>>
UMax == <<18, 446744073, 709551615>>                 \* usize::MAX (64 bit)

RECURSIVE LtN(_, _)
LtN(a, b) == IF a = <<>> THEN FALSE ELSE IF a[1] # b[1] THEN a[1] < b[1] ELSE LtN(Tail(a), Tail(b))
LeN(a, b) == a = b \/ LtN(a, b)
MaxN(a, b) == IF LtN(a, b) THEN b ELSE a
AddN(a, b) ==
    LET n == Len(a)
        C[i \in 0..n] == IF i = 0 THEN 0 ELSE (a[n - i + 1] + b[n - i + 1] + C[i - 1]) \div G
    IN [k \in 1..n |-> (a[k] + b[k] + C[n - k]) % G]
Div10(x) == <<x[1] \div 10, (x[1] % 10) * 100000000 + x[2] \div 10, (x[2] % 10) * 100000000 + x[3] \div 10>>
One3 == <<0, 0, 1>>
SatAdd(a, b) == LET s == AddN(a, b) IN IF LtN(UMax, s) THEN UMax ELSE s          \* usize::saturating_add (sums stay below 10^27)

\* the lengths of a script, one per batch
RECURSIVE Expand(_)
Expand(runs) == IF runs = <<>> THEN <<>> ELSE [i \in 1..Head(runs).count |-> Head(runs).len] \o Expand(Tail(runs))

-----------------------------------------------------------------------------
(* Level A *)
RECURSIVE MaxOfSeq(_)
MaxOfSeq(s) == IF s = <<>> THEN Zero3 ELSE MaxN(Head(s), MaxOfSeq(Tail(s)))
LastW(ls, i) == SubSeq(ls, IF i > W THEN i - W + 1 ELSE 1, i)
Spare(m) == MaxN(One3, Div10(m))
HintA(ls, i) == SatAdd(MaxOfSeq(LastW(ls, i)), Spare(MaxOfSeq(LastW(ls, i))))

(* Level B *)
RECURSIVE FoldB(_, _, _, _)
FoldB(win, idx, ls, acc) ==
    IF ls = <<>> THEN acc
    ELSE LET w2 == [win EXCEPT ![(idx % W) + 1] = Head(ls)]              \* rolling_values[idx % WINDOW] = last_len
             m == MaxOfSeq(w2)                                            \* iter().max()
         IN FoldB(w2, idx + 1, Tail(ls), Append(acc, SatAdd(m, MaxN(One3, Div10(m)))))

Init == case \in Scripts /\ res = <<>> /\ phase = "ready"
Eval ==
    /\ phase = "ready" /\ phase' = "done" /\ UNCHANGED case
    /\ res' = FoldB([i \in 1..W |-> Zero3], 0, Expand(case), <<>>)
Next == Eval
Spec == Init /\ [][Next]_vars

-----------------------------------------------------------------------------
Done == phase = "done"
Ls == Expand(case)
\* the circular array is the sliding window
WindowRefines == Done => \A i \in 1..Len(Ls) : res[i] = HintA(Ls, i)
\* the hint covers every one of the last W batches, this one included
Covers == Done => \A i \in 1..Len(Ls) : \A j \in 1..Len(LastW(Ls, i)) : LeN(LastW(Ls, i)[j], res[i])
\* ... with at most a tenth and one to spare
NotWasteful == Done => \A i \in 1..Len(Ls) :
    LET m == MaxOfSeq(LastW(Ls, i)) IN LeN(res[i], SatAdd(SatAdd(m, Div10(m)), One3))
\* a burst is forgotten: W batches later the hint depends on those W only
Forgets == Done => \A i \in 1..Len(Ls) : i > W =>
    res[i] = SatAdd(MaxOfSeq(SubSeq(Ls, i - W + 1, i)), Spare(MaxOfSeq(SubSeq(Ls, i - W + 1, i))))
\* never wraps around
NoOverflow == Done => \A i \in 1..Len(Ls) : LeN(res[i], UMax) /\ LeN(Ls[i], res[i])

EmitReplay == Emit => PrintT(<<"REPLAY", ToJson([runs |-> case', hints |-> [i \in 1..Len(Expand(case')) |-> HintA(Expand(case'), i)]])>>)
=============================================================================
