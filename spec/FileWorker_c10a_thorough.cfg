\* C10 thorough (a): max_files 3, max size {8, 1000}, reuse on/off; <= 2 submitted batches of <= 2 events, <= 4 on_batch
\* calls, <= 2 injected faults at any filesystem calls (err / short write) + 1 crash at any call boundary losing any
\* suffix (torn or not) of unsynced data, restart; clock same/next period.
SPECIFICATION Spec
CONSTANTS
    EvSize <- MC_EvSize
    MaxFilesSet = {3}
    MaxSizeSet = {8, 1000}
    ReuseSet = {TRUE, FALSE}
    NumEvents = 4
    MaxEv = 2
    MaxBatches = 2
    MaxCalls = 4
    MaxFaults = 2
    MaxCrashes = 1
    MaxReopens = 0
    MaxFmtFail = 0
    FmtFails = {}
    SepForms = {"nl"}
    WriterEnds = {"sep"}
    Ticks = {"same", "next"}
    RetryTicks = {"same"}
    Phantoms = {0}
    RidDirs = {"up"}
    MaxPeriod = 3
    MaxMs = 2
    Emit = TRUE
VIEW view
INVARIANTS Durable RecordsWellFormed RetryIsWhole AckOnlyAfterSync NoGarbage
    OneFilePerBatch RollOnlyWhen MustRoll NameIs NewestFirst Retained OldestFirst NoPanic OwnSetOnly
    EnvOk ActiveIsLastGood
ACTION_CONSTRAINT EmitReplay
CHECK_DEADLOCK FALSE
