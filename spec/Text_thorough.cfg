\* C15 thorough: automata check: path strings of <= 7 characters over {a, é, 1, _, :, -}, level strings of
\* <= 5 characters over {d, e, b, u, g, w, a, r, n, 3, space, tab, line feed, é}; cases: all strings of <= 4 characters
\* over 17 character classes, <= 5 over the level alphabet, <= 6 over the path alphabet, near-misses of 38
\* well-formed texts, level words x prefixes x cases x suffixes, level and kind words x 7 white-space classes on either side, first/last nanosecond of every month 1970..9999.
\* byte-length-preserving multi-byte substitutions (14 non-ASCII representatives incl. Latin-1 high-bit aliases) of 28 fixed-width texts.
SPECIFICATION Spec
CONSTANTS
    PathAlgo = "repaired"
    PathChars = {"a", "é", "1", "_", ":", "-"}
    PathMaxLen = 7
    LevelChars = {"d", "e", "b", "u", "g", "w", "a", "r", "n", "3", " ", "\t", "\n", "é"}
    LevelMaxLen = 5
    Tier = "thorough"
    Emit = TRUE
INVARIANTS AutomataRefineGrammar AutomataBounded
CHECK_DEADLOCK FALSE
