\* C16 quick: fragments of <= 2 characters over {a, é}, hole labels {x, y}, <= 3 parts:
\* 820 templates, all 672 400 ordered pairs as initial states; repaired cursor algorithm.
SPECIFICATION Spec
CONSTANTS
    Chars = {"a", "é"}
    CharBytes <- MC_CharBytes
    Labels = {"x", "y"}
    MaxFragLen = 2
    MaxParts = 3
    Algo = "repaired"
INVARIANTS CursorRefinesEqual CursorsInRange RenderIndependentOfSplit EquivalenceInv
PROPERTY Progress
CHECK_DEADLOCK FALSE
