\* trace validation (code -> spec) at level A; the trace file is named by env TRACE
SPECIFICATION Spec
INVARIANTS QueueBounded AccNoDup
POSTCONDITION TraceAccepted
CHECK_DEADLOCK FALSE
