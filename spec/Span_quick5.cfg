\* C04 quick (id sources): 1 thread, <= 2 spans (filter verdict free), <= 3 frames, no tasks, nesting <= 3; incoming trace id + span id; where the ids of a span node come from:
\* generated by new_child, drawn by the program from the runtime's random source (Rng::fill / gen_u128 / gen_u64 / TraceId::random), SpanCtxt::new_root (explicit None parent = not given), span_id alone given; every transition replayed.
SPECIFICATION SSpec
CONSTANTS
    NThreads = 1
    StoreOf <- MC_Store1
    InstKind <- MC_Kind1
    NKeys = 3
    PropChoices <- MC_None
    DupChoices <- MC_NoDups
    Kinds <- MC_None
    Forms <- MC_None
    MaxFrames = 3
    MaxTasks = 0
    MaxDepth = 3
    Panics = TRUE
    Discards = FALSE
    MaxSpans = 2
    IncomingKinds <- MC_IncBoth
    WithLazy = FALSE
    HasRng = TRUE
    ExplicitKinds <- MC_ExSrc
    PushLastWins = FALSE
    WithCancel = FALSE
    CancelOwnIds = FALSE
    CtxForms <- MC_Forms
    Emit = TRUE
VIEW sview
INVARIANTS InnermostWins NoTrace StackOK FrameIds AmbientIds OneTrace ParentIsEnclosing EventCarriesInnermost IdsDistinct
PROPERTIES Revert
ACTION_CONSTRAINT SEmitReplay
CHECK_DEADLOCK FALSE
