\* C12 design counterexample: the send loop as found (F7, DoublePop = TRUE); AtLeastOnce must be violated.
SPECIFICATION Spec
CONSTANTS
    NEvents = 3
    Sizes = {1}
    Limits = {1}
    MidFlushes = {{}}
    Faults = {"reject"}
    MaxFaults = 0
    MaxRetry = 10
    DoublePop = TRUE
    Emit = FALSE
VIEW view
INVARIANTS TypeOK AtLeastOnce
CHECK_DEADLOCK FALSE
