----------------------------- MODULE FileWorker -----------------------------
(***************************************************************************)
(* C10 / C11 - level B: emit_file's Worker::on_batch (emitter/file/src/    *)
(* lib.rs), one action per filesystem call, over the abstract filesystem   *)
(* of FileSetBase.  Every call has a named outcome (ok | err, writes also  *)
(* short = some bytes then an error); the environment steps the clock,     *)
(* submits batches (optionally after an overflow truncation of the         *)
(* channel), feeds a returned remainder back as the next call, crashes the *)
(* process at any call boundary losing any suffix of unsynced data, and    *)
(* restarts the worker.  The configuration (max_files, max size, reuse) is *)
(* chosen in Init.                                                         *)
(*                                                                         *)
(* The transcription is of the repaired code (fixes F4 F5 F6 F14 F16 FF1 FF2 in    *)
(* /verif/patches).  `calls` is the log of the running on_batch call,      *)
(* `hist` (hidden by VIEW) the finished calls; one REPLAY line is printed  *)
(* for every transition that ends a call or crashes.                       *)
(***************************************************************************)
EXTENDS FileSetBase, Json, FileFraming

CONSTANTS
    MaxFilesSet, MaxSizeSet, ReuseSet,   \* configurations
    NumEvents,        \* events are 1..NumEvents, numbered in submission order
    MaxEv,            \* events per submitted batch: 1..MaxEv
    MaxBatches,       \* submitted batches
    MaxCalls,         \* on_batch calls (submitted + retries)
    MaxFaults,        \* injected call failures
    MaxCrashes,       \* crashes (each followed by a restart)
    MaxReopens,       \* clean restarts (worker dropped while idle)
    MaxFmtFail,       \* emits of an event whose writer fails (front half of FileSet::emit)
    FmtFails,         \* how such a writer fails: subset of {"empty", "partial"} (output before failing)
    SepForms,         \* the configured separator: subset of {"nl", "crlf"} (see SepOf)
    WriterEnds,       \* how the writer ends its output: subset of {"sep", "none", "last", "first"}
    Ticks,            \* clock steps before a call: subset of {"same","later","next","back"}
    RetryTicks,       \* clock steps before a retry call
    Phantoms,         \* bytes pushed and then cleared from the channel before the batch: e.g. {0, 3}
    RidDirs,          \* {"up"} or {"up","down"}: how the random id of a same-millisecond file compares
    MaxPeriod,        \* periods are 1..MaxPeriod
    MaxMs,            \* counter values 0..MaxMs
    Emit

VARIABLES
    o,        \* observable state (FileSetBase)
    w,        \* worker: pc, active file, file of this call, listing, remaining batch ...
    env,      \* environment: clock, counters
    calls,    \* filesystem calls of the running on_batch: <<op, name, token, result>>
    hist      \* finished calls / crashes / restarts (hidden from the fingerprint)

vars == <<o, w, env, calls, hist>>
view == <<o, w, env, calls>>

NoFile == [name |-> None, per |-> 0, rec |-> FALSE, size |-> 0]

-----------------------------------------------------------------------------
(* The front half of the public emit path (spec/FileFraming.tla): the writer's output for   *)
(* an event and the complete bytes E(e) that FileSet::emit queues for it, for the           *)
(* configured separator and the way the writer ends its output.                             *)
WriterEndsOf(f) == EndsFor(f, WriterEnds)
QueuedFramed == \A f \in SepForms : \A we \in WriterEndsOf(f) : FramedOk(f, we)

FreshWorker == [pc |-> "idle", active |-> NoFile, file |-> NoFile, listing |-> {},
                hadActive |-> FALSE, batch |-> <<>>, rbytes |-> 0, result |-> "none",
                cur |-> <<>>]

Init ==
    /\ \E mf \in MaxFilesSet, ms \in MaxSizeSet : o = ObsInit(mf, ms)
    /\ w = FreshWorker
    /\ \E r \in ReuseSet :
       \E sf \in SepForms :
         env = [cp |-> 1, cms |-> 0, nb |-> 0, nc |-> 0, nf |-> 0, ncr |-> 0, nro |-> 0, nff |-> 0, ffk |-> "none",
                nextEv |-> 1, ridUp |-> 5, ridDn |-> 4, alive |-> TRUE, reuse |-> r, sepf |-> sf]
    /\ calls = <<>>
    /\ hist = <<>>

EvBytes(evs) == SeqBytes(evs)

Clock(tick) ==
    CASE tick = "same" -> <<env.cp, env.cms>>
      [] tick = "later" -> <<env.cp, env.cms + 1>>
      [] tick = "next" -> <<env.cp + 1, 0>>
      [] tick = "back" -> <<env.cp - 1, 0>>

ClockOk(c) == c[1] >= 1 /\ c[1] <= MaxPeriod /\ c[2] <= MaxMs

-----------------------------------------------------------------------------
\* let ts = clock.now(); let mut file = self.active_file.take();
Begin(tick, k, ph, we) ==
    /\ w.pc = "idle" /\ env.alive /\ env.nc < MaxCalls
    /\ we \in WriterEndsOf(env.sepf)
    /\ LET retry == o.rest # <<>>
           c == Clock(tick)
           evs == IF retry THEN o.rest ELSE [i \in 1..k |-> env.nextEv + i - 1]
           bytes == EvBytes(evs)
       IN /\ ClockOk(c)
          \* (a retry carries the bytes queued before: the writer is not run again)
          /\ IF retry THEN k = 1 /\ ph = 0 /\ tick \in RetryTicks /\ we = "sep"
             ELSE env.nb < MaxBatches /\ env.nextEv + k - 1 <= NumEvents /\ tick \in Ticks
          /\ o' = ObsBegin(o, evs, bytes, c[1], c[2])
          /\ w' = [w EXCEPT !.pc = IF w.active # NoFile THEN "decide" ELSE "mkdir",
                            !.file = w.active, !.active = NoFile,
                            !.hadActive = w.active # NoFile, !.listing = {},
                            !.batch = evs,
                            \* EventBatch::clear resets remaining_bytes (fix F16): the bytes
                            \* dropped by an overflow truncation are not counted
                            !.rbytes = bytes,
                            !.cur = [evs |-> evs, ph |-> ph, tick |-> tick, p |-> c[1], ms |-> c[2],
                                     we |-> we]]
          /\ env' = [env EXCEPT !.cp = c[1], !.cms = c[2], !.nc = @ + 1,
                                !.nb = IF retry THEN @ ELSE @ + 1,
                                !.nextEv = IF retry THEN @ ELSE @ + k]
    /\ calls' = <<>>
    /\ UNCHANGED hist

\* a filesystem call with its outcome; failures are bounded
Step(op, n, tok, res, w2, env2) ==
    /\ res # "ok" => env.nf < MaxFaults
    /\ o' = ObsCall(o, op, n, tok, res)
    /\ calls' = Append(calls, <<op, n, tok, res>>)
    /\ env' = IF res = "ok" THEN env2 ELSE [env2 EXCEPT !.nf = @ + 1]
    /\ w' = w2
    /\ UNCHANGED hist

Fail(kind) == [w EXCEPT !.pc = "end", !.result = kind, !.file = NoFile]

\* self.fs.create_dir_all(dir)  -- only when there is no active file
MkDir ==
    /\ w.pc = "mkdir"
    /\ \E res \in {"ok", "err"} :
         Step("mkdir", None, 0, res, IF res = "ok" THEN [w EXCEPT !.pc = "list"] ELSE Fail("retry"), env)

\* file_set.read(): a failure is logged and ignored (empty set).  Members are exactly the
\* names prefix.period.counter.id.ext (fix F6): the model's directory holds only those.
\* "list" is the read before a possible reuse, "list2" the read before retention when the
\* active file is rolled in-process (fix F5).
List ==
    /\ w.pc \in {"list", "list2"}
    /\ \E res \in {"ok", "err"} :
         LET l == IF res = "ok" THEN DOMAIN o.files ELSE {}
             pc2 == IF w.pc = "list2" THEN "retain"
                    ELSE IF env.reuse /\ l # {} THEN "openex" ELSE "decide"
         IN Step("list", None, 0, res, [w EXCEPT !.pc = pc2, !.listing = l], env)

\* ActiveFile::try_open_reuse: open_existing(newest name), sync_parent (fix FF1: the entry
\* of a file whose creation was interrupted may never have been synced), len(); a failure
\* of any of them is logged and ignored (no file is reused)
OpenEx ==
    /\ w.pc = "openex"
    /\ \E res \in {"ok", "err"} :
         Step("openex", MaxOf(w.listing), 0, res,
              [w EXCEPT !.pc = IF res = "ok" THEN "syncdir2" ELSE "decide"], env)

SyncDirReuse ==
    /\ w.pc = "syncdir2"
    /\ \E res \in {"ok", "err"} :
         Step("syncdir", None, 0, res,
              [w EXCEPT !.pc = IF res = "ok" THEN "len" ELSE "decide"], env)

FileLen ==
    /\ w.pc = "len"
    /\ LET n == MaxOf(w.listing) IN
       \E res \in {"ok", "err"} :
         Step("len", n, 0, res,
              [w EXCEPT !.pc = "decide",
                        !.file = IF res = "ok"
                                 THEN [name |-> n, per |-> PeriodOf(n), rec |-> TRUE,
                                       size |-> o.files[n].len]
                                 ELSE NoFile], env)

\* file.filter(|f| f.size + batch.remaining_bytes <= max && f.file_ts == file_ts)
Decide ==
    /\ w.pc = "decide"
    /\ LET keep == /\ w.file # NoFile
                   /\ w.file.size + w.rbytes <= o.maxSize
                   /\ w.file.per = o.rp
       IN w' = IF keep THEN [w EXCEPT !.pc = "write"]
               ELSE [w EXCEPT !.file = NoFile,
                              !.pc = IF w.hadActive THEN "list2" ELSE "retain"]
    /\ UNCHANGED <<o, env, calls, hist>>

\* apply_retention(max_files - 1): remove the smallest names while more than that remain (fix F4)
RetainLimit == IF o.maxFiles >= 1 THEN o.maxFiles - 1 ELSE 0

Remove ==
    /\ w.pc = "retain"
    /\ Cardinality(w.listing) > RetainLimit
    /\ LET n == MinOf(w.listing) IN
       \E res \in {"ok", "err"} :
         Step("remove", n, 0, res, [w EXCEPT !.listing = @ \ {n}], env)

\* ActiveFile::try_open_create: open_new(prefix.period.counter.id.ext)
OpenNew ==
    /\ w.pc = "retain"
    /\ Cardinality(w.listing) <= RetainLimit
    /\ \E dir \in RidDirs :
         /\ dir = "down" => \E m \in DOMAIN o.files : SameTick(m, MkName(o.rp, o.rms, 0))
         /\ LET rid == IF dir = "up" THEN env.ridUp ELSE env.ridDn
                n == MkName(o.rp, o.rms, rid)
                env2 == IF dir = "up" THEN [env EXCEPT !.ridUp = @ + 1] ELSE [env EXCEPT !.ridDn = @ - 1]
            IN /\ rid \in 0..9
               /\ \E res \in {"ok", "err"} :
                    Step("opennew", n, 0, res,
                         IF res = "ok"
                         THEN [w EXCEPT !.pc = "syncdir",
                                        !.file = [name |-> n, per |-> o.rp, rec |-> FALSE, size |-> 0]]
                         ELSE Fail("retry"), env2)

\* fs.sync_parent(path)
SyncDir ==
    /\ w.pc = "syncdir"
    /\ \E res \in {"ok", "err"} :
         Step("syncdir", None, 0, res,
              IF res = "ok" THEN [w EXCEPT !.pc = "write"] ELSE Fail("retry"), env)

\* write_event: if file_needs_recovery { size += sep; write_all(sep)? }
WriteSep ==
    /\ w.pc = "write" /\ w.batch # <<>> /\ w.file.rec
    /\ \E res \in {"ok", "err"} :
         Step("write", w.file.name, Sep, res,
              [w EXCEPT !.file.size = @ + 1, !.pc = IF res = "ok" THEN "wev" ELSE "pflush"], env)

\* file_needs_recovery = true; size += len; write_all(event)?; file_needs_recovery = false; advance()
WriteEv ==
    /\ \/ w.pc = "write" /\ w.batch # <<>> /\ ~w.file.rec
       \/ w.pc = "wev"
    /\ LET e == Head(w.batch) IN
       \E res \in {"ok", "err", "short"} :
         Step("write", w.file.name, e, res,
              IF res = "ok"
              THEN [w EXCEPT !.file.size = @ + EvSize[e], !.file.rec = FALSE, !.pc = "write",
                             !.batch = Tail(@), !.rbytes = @ - EvSize[e]]
              ELSE [w EXCEPT !.file.size = @ + EvSize[e], !.file.rec = TRUE, !.pc = "pflush"], env)

\* write failure (fix F14): what was written before the failure is flushed and synced
\* before the remainder is handed back, else the batch fails for good
PFlush ==
    /\ w.pc = "pflush"
    /\ \E res \in {"ok", "err"} :
         Step("flush", w.file.name, 0, res,
              IF res = "ok" THEN [w EXCEPT !.pc = "psync"] ELSE Fail("noretry"), env)

PSync ==
    /\ w.pc = "psync"
    /\ \E res \in {"ok", "err"} :
         Step("sync", w.file.name, 0, res, IF res = "ok" THEN Fail("retry") ELSE Fail("noretry"), env)

\* file.flush()?; file.sync_all()?; self.active_file = Some(file)
Flush ==
    /\ w.pc = "write" /\ w.batch = <<>>
    /\ \E res \in {"ok", "err"} :
         Step("flush", w.file.name, 0, res,
              IF res = "ok" THEN [w EXCEPT !.pc = "sync"] ELSE Fail("noretry"), env)

Sync ==
    /\ w.pc = "sync"
    /\ \E res \in {"ok", "err"} :
         Step("sync", w.file.name, 0, res,
              IF res = "ok" THEN [w EXCEPT !.pc = "end", !.result = "ok", !.active = w.file, !.file = NoFile]
              ELSE Fail("noretry"), env)

HistBatch(res, rest) ==
    [op |-> "batch", evs |-> w.cur.evs, ph |-> w.cur.ph, tick |-> w.cur.tick,
     p |-> w.cur.p, ms |-> w.cur.ms, calls |-> calls, res |-> res, rest |-> rest,
     \* the writer's output for the events of this batch and the bytes emit queues for each
     we |-> w.cur.we, out |-> WriterOut(env.sepf, w.cur.we), rec |-> Queued(env.sepf, w.cur.we)]

\* on_batch returns
End ==
    /\ w.pc = "end"
    /\ LET rest == IF w.result = "retry" THEN w.batch ELSE <<>>
       IN /\ o' = ObsEnd(o, w.result, rest)
          /\ hist' = Append(hist, HistBatch(w.result, rest))
    /\ w' = [w EXCEPT !.pc = "idle", !.batch = <<>>, !.rbytes = 0, !.result = "none",
                      !.listing = {}, !.hadActive = FALSE, !.cur = <<>>]
    /\ calls' = <<>>
    /\ UNCHANGED env

-----------------------------------------------------------------------------
\* Environment: crash at any call boundary
Dirty == {n \in DOMAIN o.files : o.files[n].uns # <<>> \/ ~o.files[n].ent}

KeepOpts(n) ==
    LET f == o.files[n]
    IN {[n |-> n, k |-> k, t |-> t, v |-> v] :
            k \in 0..Len(f.uns), t \in BOOLEAN, v \in BOOLEAN}

CrashOptOk(r) ==
    LET f == o.files[r.n]
    IN /\ r.t => (r.k > 0 /\ IsEv(f.uns[r.k]))
       /\ r.v => (~f.ent /\ r.k = 0 /\ ~r.t)

CrashChoices ==
    LET opts(n) == {r \in KeepOpts(n) : CrashOptOk(r)}
        all == UNION {opts(n) : n \in Dirty}
    IN {c \in SUBSET all : \A n \in Dirty : Cardinality({r \in c : r.n = n}) = 1}

Crash ==
    /\ env.alive /\ env.ncr < MaxCrashes
    /\ w.pc # "end"
    /\ w.pc # "idle" \/ Dirty # {}
    /\ \E c \in CrashChoices :
         /\ o' = ObsCrash(o, c)
         /\ hist' = (IF w.pc = "idle" THEN hist ELSE Append(hist, HistBatch("crash", <<>>)))
                    \o <<[op |-> "crash", c |-> c]>>
    /\ w' = [FreshWorker EXCEPT !.pc = "dead"]
    /\ env' = [env EXCEPT !.ncr = @ + 1, !.alive = FALSE]
    /\ calls' = <<>>

Restart ==
    /\ ~env.alive
    /\ o' = ObsRestart(o)
    /\ w' = FreshWorker
    /\ env' = [env EXCEPT !.alive = TRUE]
    /\ hist' = Append(hist, [op |-> "restart"])
    /\ UNCHANGED calls

\* the worker is dropped while idle and constructed again
Reopen ==
    /\ env.alive /\ w.pc = "idle" /\ env.nro < MaxReopens /\ env.nc > 0 /\ env.nc < MaxCalls
    /\ o' = ObsRestart(o)
    /\ w' = FreshWorker
    /\ env' = [env EXCEPT !.nro = @ + 1]
    /\ hist' = Append(hist, [op |-> "restart"])
    /\ UNCHANGED calls

\* FileSet::emit of an event whose writer fails (before or after part of its output): the
\* event is discarded as a whole - nothing is handed to the channel, the worker and the
\* files are unaffected, and so is every event formatted afterwards (same thread or not).
\* Replayed only where the real emit runs (production run, harness c10_file_prod).
FmtFail(kind) ==
    /\ env.alive /\ w.pc = "idle" /\ o.rest = <<>>
    /\ env.nff < MaxFmtFail /\ env.nc < MaxCalls /\ env.nb < MaxBatches
    \* (the kind stays in the state so that both kinds keep their own histories)
    /\ env' = [env EXCEPT !.nff = @ + 1, !.ffk = kind]
    /\ hist' = Append(hist, [op |-> "fmtfail", kind |-> kind])
    /\ UNCHANGED <<o, w, calls>>

Next ==
    \/ \E kind \in FmtFails : FmtFail(kind)
    \/ \E tick \in Ticks \cup RetryTicks, k \in 1..MaxEv, ph \in Phantoms, we \in WriterEnds : Begin(tick, k, ph, we)
    \/ MkDir \/ List \/ OpenEx \/ SyncDirReuse \/ FileLen \/ Decide \/ Remove \/ OpenNew \/ SyncDir
    \/ WriteSep \/ WriteEv \/ PFlush \/ PSync \/ Flush \/ Sync \/ End
    \/ Crash \/ Restart \/ Reopen

Spec == Init /\ [][Next]_vars

-----------------------------------------------------------------------------
(* The clauses of C10 and C11 as invariants of the design *)
Durable == DurableOf(o)
RecordsWellFormed == WellFormedOf(o)
RetryIsWhole == "RetryIsWhole" \notin o.bad
AckOnlyAfterSync == "AckOnlyAfterSync" \notin o.bad
NoGarbage == "NoGarbage" \notin o.bad
OneFilePerBatch == "OneFilePerBatch" \notin o.bad
RollOnlyWhen == "RollOnlyWhen" \notin o.bad
MustRoll == "MustRoll" \notin o.bad
NameIs == "NameIs" \notin o.bad
NewestFirst == "NewestFirst" \notin o.bad
Retained == "Retained" \notin o.bad
OldestFirst == "OldestFirst" \notin o.bad
NoPanic == "NoPanic" \notin o.bad
OwnSetOnly == "OwnSetOnly" \notin o.bad
EnvOk == "EnvRetryMismatch" \notin o.bad
\* finding F15: not part of the green set; checked by FileWorker_f15.cfg, which must fail
NewestFirstStrict == "NewestFirstTie" \notin o.bad

\* the active file is kept only across a successful call (poisoning)
ActiveIsLastGood == w.pc = "idle" => (w.active = NoFile <=> o.lastGood = None)

-----------------------------------------------------------------------------
(* spec -> code: one REPLAY line for every transition that ends a call or crashes: the    *)
(* configuration, the calls so far with the outcome of every filesystem call, and the     *)
(* directory the specification predicts afterwards.                                       *)
FilesOut(ob) == {[n |-> n, syn |-> ob.files[n].syn, uns |-> ob.files[n].uns, ent |-> ob.files[n].ent] :
                    n \in DOMAIN ob.files}

EmitReplay ==
    (Emit /\ Len(hist') > Len(hist) /\ hist'[Len(hist')].op \notin {"restart", "fmtfail"}) =>
        PrintT(<<"REPLAY", ToJson([maxFiles |-> o.maxFiles, maxSize |-> o.maxSize, reuse |-> env.reuse,
                                   sepf |-> env.sepf, sep |-> SepOf(env.sepf),
                                   hist |-> hist', files |-> FilesOut(o'), acked |-> o'.acked])>>)
=============================================================================
