------------------------------- MODULE Encode -------------------------------
(***************************************************************************)
(* C13 - every sink encodes every event faithfully.                        *)
(*                                                                         *)
(* What a specification can carry of this property is the RECORD MAPPING:  *)
(* which property goes to which field / attribute of the output record of  *)
(* each sink, how often, with which value (first occurrence), and which    *)
(* abstract image a value shape has in the target format.  The byte level  *)
(* (JSON / protobuf well-formedness, numeric and text fidelity) is decided *)
(* by the projection in the harness (harness/vh_enc) against pool values.  *)
(*                                                                         *)
(* Level A (the statement): FileRecord / LogRecord / SpanRecord /          *)
(* MetricRecord, defined declaratively over the abstract event.            *)
(* Level B (the code): a three step pipeline                               *)
(*   Dedup (emit_core Dedup::for_each: ordered scan with a seen-set)       *)
(*   Lift  (the `match k.get()` arms assigning trace_id, level, ... while  *)
(*          iterating; `props.get` for names)                              *)
(*   Attr  (what is streamed as an attribute / member)                     *)
(* transcribed from emitter/file/src/lib.rs default_writer and             *)
(* emitter/otlp/src/data/{logs/log_record,traces/span,metrics,any_value}.  *)
(* FixF8 / FixF9 say whether the transcription includes the repairs of     *)
(* defects F8 (todo!() on non-text map keys) and F9 (metric attributes not *)
(* de-duplicated, last metric_unit wins).                                  *)
(*                                                                         *)
(* A shape is a tuple of strings in prefix notation: <<"I64">>,            *)
(* <<"Seq","F64">>, <<"MapKey","Bool","Str">>, <<"Some","Seq","I64">>.     *)
(* An image is a tuple in the same notation over the target format.        *)
(***************************************************************************)
EXTENDS Naturals, Sequences, FiniteSets, TLC, Json

CONSTANTS
    Events,     \* the abstract events explored (built by MCEncode from the bounds)
    FixF8,      \* transcription renders non-text map keys as text (repair of F8)
    FixF9,      \* transcription iterates metrics attributes de-duplicated (repair of F9)
    AndClaimsUnique, \* transcription: does a concatenation And<A, B> of two unique collections
                \* report is_unique() (it must not: FALSE is the code; TRUE is the self test)
    CarveF17,   \* TRUE: events that trigger finding F17 are exempt from AttrKeysUnique
    Emit        \* TRUE: print one REPLAY line per completed event

VARIABLES
    ev,         \* the abstract event: [kind, extent, props]
    pc,         \* "dedup" -> "lift" -> "attr" -> "done"
    dd,         \* level B: indices surviving the dedup scan, in order
    lift,       \* level B: per sink, the lifted fields (index of the source property, 0 = unset)
    out         \* level B: per sink, the attribute list

vars == <<ev, pc, dd, lift, out>>

-----------------------------------------------------------------------------
(* Keys *)
IdKeys == {"trace_id", "span_id", "span_parent"}
LogLifted == {"lvl", "trace_id", "span_id", "err"}
SpanLifted == {"evt_kind", "span_name", "lvl", "span_id", "span_parent", "trace_id", "err"}
MetricLifted == {"evt_kind", "metric_name", "metric_agg", "metric_value", "metric_unit"}
\* metric data points have no id fields; the statement is silent on them: don't-care
MetricOptional == IdKeys

-----------------------------------------------------------------------------
(* Shapes and their images *)
\* "Reent": a value whose Display / sval impl emits another event through the same sink
\* while it is being rendered; its image is its Display text
\* "DispVal" / "DbgVal": a value captured through its Display / Debug impl only (what the
\* as_display / as_debug capture modes hand to a sink); image: that text
TextAtoms == {"Str", "StrCtl", "StrUni", "Reent", "DispVal", "DbgVal", "EnumUnit", "Err", "ErrChain", "Level", "LevelText",
              "IdTyped", "IdHex", "KindSpan", "KindMetric", "AggCount", "AggSum", "AggLast"}
BigAtoms == {"U64Big", "I128", "U128"}
\* a 128-bit typed integer whose VALUE fits 64 bits (i128 / u128 are types, not magnitudes): the
\* target has an integer for it; the statement's "they become decimal text" is about values OTLP
\* cannot carry: either form is accepted ("intlike")
SmallBigAtoms == {"I128Small", "U128Small"}
FloatAtoms == {"F64", "NaN", "Inf"}
AbsentAtoms == {"Null", "None", "OptNone"}
Atoms == TextAtoms \cup BigAtoms \cup SmallBigAtoms \cup FloatAtoms \cup AbsentAtoms
            \cup {"Bool", "I64", "Bytes", "BytesRef", "Struct", "EnumNewtype"}
\* map key kinds: "Bytes" = a byte string, "SeqKey" = a sequence / tuple used as a key,
\* "NullKey" = the null / unit / None key, "OptKey" = Option keys (None and Some(i64)),
\* "MapAsKey" = a map used as a key, "TupKey" = a compound key holding null, bytes, bool, float,
\* a nested sequence and a nested map, "BytesRefKey" = a byte string streamed borrowed
KeyKinds == {"Bool", "I64", "F64", "Bytes", "SeqKey", "NullKey", "OptKey", "MapAsKey", "TupKey", "BytesRefKey"}
\* keys JSON object member names cannot be derived from by sval_json: the default file writer
\* fails on them and the event is dropped (no line at all; never a mangled one).  For the kinds
\* beyond text / bool / number the statement does not say what the member name is: the writer may
\* refuse or write any well-formed member
UnencodableKeys == {"Bytes", "SeqKey", "NullKey", "OptKey", "MapAsKey", "TupKey", "BytesRefKey"}

\* the derived struct of the value pool (harness: `Rec`), field by field
StructFields == <<
    [name |-> "id",   shape |-> <<"I64">>],
    [name |-> "name", shape |-> <<"StrUni">>],
    [name |-> "big",  shape |-> <<"U128">>],
    [name |-> "opt",  shape |-> <<"Some", "I64">>],
    [name |-> "list", shape |-> <<"Seq", "F64">>],
    [name |-> "nil",  shape |-> <<"None">>] >>
\* the derived enum of the pool: En::Newtype(i64)
EnumInner == <<"I64">>

Rest(s, n) == SubSeq(s, n, Len(s))

\* OTLP AnyValue image (level A).  128-bit and > i64 integers have no OTLP integer: decimal
\* text.  Non-finite doubles stay doubles.  Absent values: no value at all.
RECURSIVE AnyOf(_)
AnyOf(s) ==
    LET h == s[1] IN
    CASE h \in AbsentAtoms -> <<"absent">>
      [] h = "Bool" -> <<"bool">>
      [] h = "I64" -> <<"int">>
      [] h \in BigAtoms -> <<"decstr">>
      [] h \in SmallBigAtoms -> <<"intlike">>
      [] h \in FloatAtoms -> <<"double">>
      [] h \in TextAtoms -> <<"string">>
      [] h \in {"Bytes", "BytesRef"} -> <<"bytes">>
      [] h = "Struct" -> <<"record">>
      [] h = "EnumNewtype" -> <<"enum">> \o AnyOf(EnumInner)
      [] h = "Seq" -> <<"array">> \o AnyOf(Rest(s, 2))
      [] h = "MapStr" -> <<"kvlist", "Str">> \o AnyOf(Rest(s, 2))
      [] h = "MapKey" -> <<"kvlist", s[2]>> \o AnyOf(Rest(s, 3))   \* key rendered as text
      [] h = "Some" -> AnyOf(Rest(s, 2))
      \* a fixed-size array of primitives ([T; N] as a value) / an Option of a primitive
      [] h = "Arr" -> <<"array">> \o AnyOf(Rest(s, 2))
      [] h = "Opt" -> AnyOf(Rest(s, 2))

\* JSON image for the rolling file (level A).  JSON integers are unbounded: exact digits.
\* JSON has no NaN/Infinity: any well-formed rendering is accepted.
RECURSIVE JsonOf(_)
JsonOf(s) ==
    LET h == s[1] IN
    CASE h \in AbsentAtoms -> <<"null">>
      [] h = "Bool" -> <<"bool">>
      [] h \in {"I64"} \cup BigAtoms \cup SmallBigAtoms -> <<"integer">>
      [] h = "F64" -> <<"number">>
      [] h \in {"NaN", "Inf"} -> <<"any">>
      [] h \in TextAtoms -> <<"string">>
      [] h \in {"Bytes", "BytesRef"} -> <<"bytes">>
      [] h = "Struct" -> <<"record">>
      [] h = "EnumNewtype" -> <<"enum">> \o JsonOf(EnumInner)
      [] h = "Seq" -> <<"array">> \o JsonOf(Rest(s, 2))
      [] h = "MapStr" -> <<"object", "Str">> \o JsonOf(Rest(s, 2))
      [] h = "MapKey" -> IF s[2] \in UnencodableKeys THEN <<"unencodable">>
                         ELSE <<"object", s[2]>> \o JsonOf(Rest(s, 3))
      [] h = "Some" -> JsonOf(Rest(s, 2))
      \* a fixed-size array of primitives ([T; N] as a value) / an Option of a primitive
      [] h = "Arr" -> <<"array">> \o JsonOf(Rest(s, 2))
      [] h = "Opt" -> JsonOf(Rest(s, 2))

\* Level B: emitter/otlp/src/data/any_value.rs AnyStream.  Only null/bool/text/i64/f64/
\* binary/seq/map are overridden; sval's defaults route u64/i128/u128 through i64 when they
\* fit and through number *text* otherwise, records through maps, tags through their label,
\* Option through its content / null.  `in_map_key` passes text through and hits todo!()
\* for bool, i64, f64 (binary, seq, map) before the repair.
RECURSIVE AnyStreamB(_)
AnyStreamB(s) ==
    LET h == s[1] IN
    CASE h \in AbsentAtoms -> <<"absent">>
      [] h = "Bool" -> <<"bool">>
      [] h = "I64" -> <<"int">>
      [] h \in BigAtoms -> <<"decstr">>
      \* (sval's default i128 / u128: through i64 when the value fits)
      [] h \in SmallBigAtoms -> <<"intlike">>
      [] h \in FloatAtoms -> <<"double">>
      [] h \in TextAtoms -> <<"string">>
      [] h \in {"Bytes", "BytesRef"} -> <<"bytes">>
      [] h = "Struct" -> <<"record">>
      [] h = "EnumNewtype" -> <<"enum">> \o AnyStreamB(EnumInner)
      [] h = "Seq" -> <<"array">> \o AnyStreamB(Rest(s, 2))
      [] h = "MapStr" -> <<"kvlist", "Str">> \o AnyStreamB(Rest(s, 2))
      [] h = "MapKey" -> IF FixF8 THEN <<"kvlist", s[2]>> \o AnyStreamB(Rest(s, 3))
                         ELSE <<"HOLE">>
      [] h = "Some" -> AnyStreamB(Rest(s, 2))
      \* a fixed-size array of primitives ([T; N] as a value) / an Option of a primitive
      [] h = "Arr" -> <<"array">> \o AnyStreamB(Rest(s, 2))
      [] h = "Opt" -> AnyStreamB(Rest(s, 2))

HasUnencodable(img) == \E i \in 1..Len(img) : img[i] = "unencodable"
HasHole(img) == \E i \in 1..Len(img) : img[i] = "HOLE"

-----------------------------------------------------------------------------
(* Level A: the statement *)
Props(e) == e.props
KeyAt(e, i) == e.props[i].key
ShapeAt(e, i) == e.props[i].shape
KeysOf(e) == {KeyAt(e, i) : i \in 1..Len(e.props)}

FirstIdx(e, k) ==
    IF k \in KeysOf(e)
    THEN CHOOSE i \in 1..Len(e.props) :
            KeyAt(e, i) = k /\ \A j \in 1..(i - 1) : KeyAt(e, j) # k
    ELSE 0

IsFirst(e, i) == \A j \in 1..(i - 1) : KeyAt(e, j) # KeyAt(e, i)

\* the de-duplicated properties, first occurrence wins, in order of first occurrence
DedupIdx(e) == SelectSeq([i \in 1..Len(e.props) |-> i], LAMBDA i : IsFirst(e, i))

Attr(e, i, img) == [key |-> KeyAt(e, i), from |-> i, img |-> img, opt |-> FALSE, syn |-> FALSE]
\* an attribute the sink synthesises from property i under another key
SynAttr(k, i, img) == [key |-> k, from |-> i, img |-> img, opt |-> FALSE, syn |-> TRUE]

FixedOf(e) ==
    CASE e.extent = "none" -> <<"mdl", "msg", "tpl">>
      [] e.extent = "point" -> <<"ts", "mdl", "msg", "tpl">>
      \* "an empty range is still considered a range" (core/src/extent.rs); a backwards range
      \* (end < start) is what it was built from: as_range() = the range, as_point() = its end
      [] e.extent \in {"range", "rangeEmpty", "rangeBack"} -> <<"ts_start", "ts", "mdl", "msg", "tpl">>

MapSeq(s, Op(_)) == [n \in 1..Len(s) |-> Op(s[n])]

FileRecord(e) ==
    [sink |-> "file", fixed |-> FixedOf(e),
     may_drop |-> \E i \in 1..Len(e.props) : IsFirst(e, i) /\ HasUnencodable(JsonOf(ShapeAt(e, i))),
     attrs |-> MapSeq(DedupIdx(e), LAMBDA i : Attr(e, i, JsonOf(ShapeAt(e, i))))]

\* the terminal line: what emit_term shows of an event (everything else is layout)
TermRecord(e) ==
    [sink |-> "term",
     lvl |-> FirstIdx(e, "lvl"),          \* # 0: the level's text
     kind |-> FirstIdx(e, "evt_kind"),    \* # 0: the kind's text
     err |-> FirstIdx(e, "err"),          \* # 0 and an error value: its text, then every cause in chain order
     hole |-> IF e.tpl = "literal" THEN 0 ELSE FirstIdx(e, "a"),   \* the template's hole: the value's rendering inside the message
     fmt |-> e.tpl = "fmt_hole",          \* ... through the hole's formatter (`{a:>12}`-style)
     \* an extent with a length (a range that does not run backwards) is shown as its end and its
     \* length: the number and unit shown denote the length (truncated to the unit shown; which
     \* unit is layout).  e.dur is the length's magnitude class
     len |-> e.extent \in {"range", "rangeEmpty"}, dur |-> e.dur,
     mdl |-> e.mdl,                       \* the module's shape: its first and its last segment are shown
     \* the same line on every form of the sink
     forms |-> {"stdout", "stdout colored", "stderr", "stderr colored"},
     trace |-> FirstIdx(e, "trace_id"), span |-> FirstIdx(e, "span_id")]

\* err -> exception.message (+ exception.stacktrace when the error has a source)
ExcAttrs(e, i) ==
    (IF ShapeAt(e, i) = <<"ErrChain">> THEN <<SynAttr("exception.stacktrace", i, <<"stack">>)>>
     ELSE <<>>) \o <<SynAttr("exception.message", i, <<"string">>)>>

LogRecord(e) ==
    [sink |-> "logs",
     time |-> e.extent,                  \* none: 0, point: the point, range: its end
     sev |-> FirstIdx(e, "lvl"),         \* 0: default (info)
     trace |-> FirstIdx(e, "trace_id"),
     span |-> FirstIdx(e, "span_id"),
     attrs |-> MapSeq(SelectSeq(DedupIdx(e), LAMBDA i : KeyAt(e, i) \notin LogLifted),
                      LAMBDA i : Attr(e, i, AnyOf(ShapeAt(e, i))))
               \o (IF FirstIdx(e, "err") # 0 THEN ExcAttrs(e, FirstIdx(e, "err")) ELSE <<>>)]

SpanRecord(e) ==
    [sink |-> "traces",
     name |-> FirstIdx(e, "span_name"),  \* 0: the rendered message
     sev |-> FirstIdx(e, "lvl"),
     trace |-> FirstIdx(e, "trace_id"),
     span |-> FirstIdx(e, "span_id"),
     parent |-> FirstIdx(e, "span_parent"),
     err |-> FirstIdx(e, "err"),         \* # 0: status error + exception event
     attrs |-> MapSeq(SelectSeq(DedupIdx(e), LAMBDA i : KeyAt(e, i) \notin SpanLifted),
                      LAMBDA i : Attr(e, i, AnyOf(ShapeAt(e, i))))]

AggOf(e) ==
    LET i == FirstIdx(e, "metric_agg") IN
    IF i = 0 THEN "gauge"
    ELSE CASE ShapeAt(e, i) = <<"AggCount">> -> "sum"
           [] ShapeAt(e, i) = <<"AggSum">> -> "sum"
           [] OTHER -> "gauge"

MetricRecord(e) ==
    [sink |-> "metrics",
     name |-> FirstIdx(e, "metric_name"),
     unit |-> FirstIdx(e, "metric_unit"),     \* 0: no unit
     value |-> FirstIdx(e, "metric_value"),
     data |-> AggOf(e),
     time |-> e.extent,
     attrs |-> MapSeq(SelectSeq(DedupIdx(e), LAMBDA i : KeyAt(e, i) \notin MetricLifted),
                      LAMBDA i : [Attr(e, i, AnyOf(ShapeAt(e, i)))
                                    EXCEPT !.opt = KeyAt(e, i) \in MetricOptional])]

\* A metric sample has points only when its metric_value is a number or a sequence of numbers.
\* Any other value (null, None, boolean, text, a sequence of texts, a sequence of sequences, a
\* map, a struct) has no image as points: the event is still an event and every sink still
\* accepts it - OTLP carries it as a log record (the fallback signal; all of its properties,
\* including the metric_* ones, are then ordinary attributes).
NumAtoms == {"I64"} \cup BigAtoms \cup SmallBigAtoms \cup FloatAtoms
RECURSIVE NumericShape(_, _)
NumericShape(s, inSeq) ==
    LET h == s[1] IN
    CASE h \in NumAtoms -> TRUE
      [] h \in {"Seq", "Arr"} -> ~inSeq /\ NumericShape(Rest(s, 2), TRUE)
      [] h \in {"Some", "Opt"} -> NumericShape(Rest(s, 2), inSeq)
      [] OTHER -> FALSE
RouteA(e) ==
    IF e.kind = "metric"
    THEN LET i == FirstIdx(e, "metric_value")
         IN IF i # 0 /\ NumericShape(ShapeAt(e, i), FALSE) THEN "metric" ELSE "log"
    ELSE e.kind

OtlpRecord(e) ==
    CASE RouteA(e) = "log" -> LogRecord(e)
      [] RouteA(e) = "span" -> SpanRecord(e)
      [] RouteA(e) = "metric" -> MetricRecord(e)

-----------------------------------------------------------------------------
(* Level B: the pipeline *)

\* emit_core Dedup::for_each: yield a pair iff its key has not been seen.
RECURSIVE DedupScan(_, _, _, _)
DedupScan(e, i, seen, acc) ==
    IF i > Len(e.props) THEN acc
    ELSE IF KeyAt(e, i) \in seen THEN DedupScan(e, i + 1, seen, acc)
    ELSE DedupScan(e, i + 1, seen \cup {KeyAt(e, i)}, Append(acc, i))

\* a `match k.get()` arm that assigns a local while iterating: the last visit wins
LastAssigned(e, iter, k) ==
    LET hits == SelectSeq(iter, LAMBDA i : KeyAt(e, i) = k)
    IN IF Len(hits) = 0 THEN 0 ELSE hits[Len(hits)]

\* `props.get(k)`: first occurrence
GetIdx(e, k) == FirstIdx(e, k)

AllIdx(e) == [i \in 1..Len(e.props) |-> i]
\* what the metrics encoder iterates: `evt.props().for_each` before F9's repair
MetricIter(e) == IF FixF9 THEN dd ELSE AllIdx(e)

\* emitter/otlp/src/data/metrics.rs `Extract`: the sval stream the metric_value is run through.
\* null / bool / text_begin answer sval::error(); i64 / f64 / u128 / i128 push a point; a sequence
\* inside a sequence is an error; everything Extract does not override arrives through sval's
\* defaults (Option: its content or null; a map / record: nested sequences).  An error makes the
\* metrics encoder decline, and OtlpInner::emit falls through to traces (no: kind is metric) and logs.
RECURSIVE ExtractB(_, _)
ExtractB(s, inSeq) ==
    LET h == s[1] IN
    CASE h \in AbsentAtoms -> "error"
      [] h = "Bool" -> "error"
      [] h \in TextAtoms -> "error"
      [] h \in NumAtoms -> "points"
      [] h \in {"Seq", "Arr"} -> IF inSeq THEN "error" ELSE ExtractB(Rest(s, 2), TRUE)
      [] h \in {"Some", "Opt"} -> ExtractB(Rest(s, 2), inSeq)
      [] h \in {"MapStr", "MapKey", "Struct", "EnumNewtype"} -> "error"
      [] OTHER -> "error"
RouteB(e) ==
    IF e.kind = "metric"
    THEN IF GetIdx(e, "metric_value") # 0 /\ ExtractB(ShapeAt(e, GetIdx(e, "metric_value")), FALSE) = "points"
         THEN "metric" ELSE "log"
    ELSE e.kind

LiftB(e) ==
    CASE RouteB(e) = "log" ->
            [sev |-> LastAssigned(e, dd, "lvl"), trace |-> LastAssigned(e, dd, "trace_id"),
             span |-> LastAssigned(e, dd, "span_id")]
      [] RouteB(e) = "span" ->
            [name |-> GetIdx(e, "span_name"), sev |-> LastAssigned(e, dd, "lvl"),
             trace |-> LastAssigned(e, dd, "trace_id"), span |-> LastAssigned(e, dd, "span_id"),
             parent |-> LastAssigned(e, dd, "span_parent"),
             err |-> IF LastAssigned(e, dd, "err") # 0 THEN GetIdx(e, "err") ELSE 0]
      [] RouteB(e) = "metric" ->
            [name |-> GetIdx(e, "metric_name"), value |-> GetIdx(e, "metric_value"),
             unit |-> LastAssigned(e, MetricIter(e), "metric_unit")]

LogAttrsB(e) ==
    LET one(i) ==
          IF KeyAt(e, i) = "err" THEN ExcAttrs(e, i)
          ELSE IF KeyAt(e, i) \in LogLifted THEN <<>>
          ELSE <<Attr(e, i, AnyStreamB(ShapeAt(e, i)))>>
        RECURSIVE cat(_)
        cat(n) == IF n > Len(dd) THEN <<>> ELSE one(dd[n]) \o cat(n + 1)
    IN cat(1)

AttrsB(e) ==
    CASE RouteB(e) = "log" ->
            \* streamed in iteration order; the err arm streams its attributes in place.
            \* Order is not part of the statement: compared as a bag (see SameAttrs).
            LogAttrsB(e)
      [] RouteB(e) = "span" ->
            MapSeq(SelectSeq(dd, LAMBDA i : KeyAt(e, i) \notin SpanLifted),
                   LAMBDA i : Attr(e, i, AnyStreamB(ShapeAt(e, i))))
      [] RouteB(e) = "metric" ->
            MapSeq(SelectSeq(MetricIter(e),
                             LAMBDA i : KeyAt(e, i) \notin (MetricLifted \cup MetricOptional)),
                   LAMBDA i : Attr(e, i, AnyStreamB(ShapeAt(e, i))))

FileAttrsB(e) == MapSeq(dd, LAMBDA i : Attr(e, i, JsonOf(ShapeAt(e, i))))

Init ==
    /\ ev \in Events
    /\ pc = "dedup"
    /\ dd = <<>>
    /\ lift = <<>>
    /\ out = [file |-> <<>>, otlp |-> <<>>]

\* Props::dedup() short-circuits to the raw for_each when the collection says is_unique().
\* The event's properties reach a sink in one of three CARRIERS (ev.carrier):
\*   "slice"    one array / slice of pairs (is_unique = FALSE)
\*   "and"      props[1..split] and props[split+1..] are two map-like collections (each unique on
\*              its own) concatenated with and_props
\*   "ambient"  props[split+1..] live in the ambient context (a ThreadLocalCtxt frame) and
\*              emit_core::emit concatenates the event's own properties with them
\* Duplicates therefore also arise ACROSS the two sides; the first side comes first.
UniqueClaimB(e) == IF e.carrier = "slice" THEN FALSE ELSE AndClaimsUnique

Dedup ==
    /\ pc = "dedup"
    /\ dd' = IF UniqueClaimB(ev) THEN AllIdx(ev) ELSE DedupScan(ev, 1, {}, <<>>)
    /\ pc' = "lift"
    /\ UNCHANGED <<ev, lift, out>>

Lift ==
    /\ pc = "lift"
    /\ lift' = LiftB(ev)
    /\ pc' = "attr"
    /\ UNCHANGED <<ev, dd, out>>

AttrStep ==
    /\ pc = "attr"
    /\ out' = [file |-> FileAttrsB(ev), otlp |-> AttrsB(ev)]
    /\ pc' = "done"
    /\ UNCHANGED <<ev, dd, lift>>

Next == Dedup \/ Lift \/ AttrStep

Spec == Init /\ [][Next]_vars

-----------------------------------------------------------------------------
(* Properties of the mapping, checked on level B's result *)
Done == pc = "done"

SeqKeys(s) == {s[n].key : n \in 1..Len(s)}
CountKey(s, k) == Cardinality({n \in 1..Len(s) : s[n].key = k})
Required(s) == SelectSeq(s, LAMBDA a : ~a.opt)

\* F17: a user property literally named like a synthesised attribute together with `err`
\* in the logs signal (the statement's two clauses cannot both hold there)
F17Case(e) ==
    /\ RouteA(e) = "log"
    /\ "err" \in KeysOf(e)
    /\ \/ "exception.message" \in KeysOf(e)
       \/ "exception.stacktrace" \in KeysOf(e)

AttrKeysUnique ==
    Done => /\ \A k \in SeqKeys(out.file) : CountKey(out.file, k) = 1
            /\ (CarveF17 /\ F17Case(ev)) \/
               \A k \in SeqKeys(out.otlp) : CountKey(out.otlp, k) = 1

LiftedOf(e) ==
    CASE RouteA(e) = "log" -> LogLifted
      [] RouteA(e) = "span" -> SpanLifted
      [] RouteA(e) = "metric" -> MetricLifted \cup MetricOptional

\* every property that has no dedicated field appears exactly once under its key
Own(s) == SelectSeq(s, LAMBDA a : ~a.syn)
EveryPropOnce ==
    Done => /\ \A k \in KeysOf(ev) : CountKey(out.file, k) = 1
            /\ \A k \in KeysOf(ev) \ LiftedOf(ev) :
                   Cardinality({n \in 1..Len(out.otlp) :
                       /\ ~out.otlp[n].syn
                       /\ out.otlp[n].key = k
                       /\ out.otlp[n].from = FirstIdx(ev, k)}) = 1

\* ... with its first value; dedicated fields also take the first occurrence
FirstWins ==
    Done => /\ \A n \in 1..Len(out.file) : out.file[n].from = FirstIdx(ev, out.file[n].key)
            /\ \A n \in 1..Len(out.otlp) :
                   ~out.otlp[n].syn => out.otlp[n].from = FirstIdx(ev, out.otlp[n].key)
            /\ \A f \in DOMAIN lift : lift[f] = (LET exp == OtlpRecord(ev) IN exp[f])

\* well-known keys go to their fields and not to the attributes
WellKnownLifted ==
    Done => \A n \in 1..Len(out.otlp) :
               ~out.otlp[n].syn => out.otlp[n].key \notin LiftedOf(ev)

\* every shape has an image
Total ==
    Done => \A n \in 1..Len(out.otlp) : ~HasHole(out.otlp[n].img)

\* level B computes level A (attributes compared as bags: order is not in the statement)
Bag(s) == {<<s[n], CountKey(s, s[n].key)>> : n \in 1..Len(s)}
SameAttrs(a, b) == Bag(a) = Bag(b) /\ Len(a) = Len(b)
Refines ==
    Done => /\ SameAttrs(out.file, FileRecord(ev).attrs)
            /\ SameAttrs(out.otlp, Required(OtlpRecord(ev).attrs))

\* a collection may only claim uniqueness when no key repeats
UniqueClaimSound ==
    UniqueClaimB(ev) => \A i, j \in 1..Len(ev.props) : i < j => KeyAt(ev, i) # KeyAt(ev, j)

TypeOK == pc \in {"dedup", "lift", "attr", "done"}

-----------------------------------------------------------------------------
(* spec -> code: one REPLAY line per event: the abstract event and the abstract output
   records the statement predicts (level A). *)
EmitReplay ==
    (Emit /\ pc' = "done") =>
        PrintT(<<"REPLAY", ToJson([ev |-> ev, file |-> FileRecord(ev), otlp |-> OtlpRecord(ev),
                                    term |-> TermRecord(ev)])>>)

\* the tables the harness needs to turn an image into a concrete expectation
Tables ==
    [struct |-> MapSeq(StructFields, LAMBDA f : [name |-> f.name, shape |-> f.shape,
                                                  any |-> AnyOf(f.shape), json |-> JsonOf(f.shape)]),
     severity |-> [debug |-> 5, info |-> 9, warn |-> 13, error |-> 17],
     status_error |-> 2]
=============================================================================
