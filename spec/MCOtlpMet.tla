------------------------------ MODULE MCOtlpMet ------------------------------
EXTENDS OtlpMet
C(s, p, g) == [signal |-> s, proto |-> p, gzip |-> g]
MC_Configs == {C(s, p, g) : s \in {"logs", "traces"}, p \in {"http_proto", "http_json", "grpc"}, g \in BOOLEAN}
MC_FailKinds(p) == IF p = "grpc" THEN {"s500", "g14", "dropa"} ELSE {"s500", "s404", "dropa"}
=============================================================================
