\* C11 finding F15: NewestFirst in its strict form (same period and same counter included); random ids may
\* descend; max_files 3, huge size, no reuse, 2 batches with a restart in between, clock standing still. Must FAIL.
SPECIFICATION Spec
CONSTANTS
    EvSize <- MC_EvSize
    MaxFilesSet = {3}
    MaxSizeSet = {1000}
    ReuseSet = {FALSE}
    NumEvents = 2
    MaxEv = 1
    MaxBatches = 2
    MaxCalls = 2
    MaxFaults = 0
    MaxCrashes = 0
    MaxReopens = 1
    MaxFmtFail = 0
    FmtFails = {}
    SepForms = {"nl"}
    WriterEnds = {"sep"}
    Ticks = {"same"}
    RetryTicks = {"same"}
    Phantoms = {0}
    RidDirs = {"up", "down"}
    MaxPeriod = 3
    MaxMs = 2
    Emit = FALSE
VIEW view
INVARIANTS NewestFirst NewestFirstStrict
CHECK_DEADLOCK FALSE
