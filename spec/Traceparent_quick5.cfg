\* C18 quick (no sampler): emit_traceparent::setup()..init_slot(..) and Runtime::build(TraceparentFilter::new(), TraceparentCtxt::new(..)): every new trace is sampled, nothing is consulted; 2 threads, <= 2 spans, <= 2 frames, nesting <= 2;
\* headers sampled / unsampled (trace 101); frames made by SpanCtxt::current().push(), Tracestate::push and Frame::root (TraceparentCtxt::open_root) created on one thread and entered on either; events everywhere; every transition replayed.
SPECIFICATION Spec
CONSTANTS
    NThreads = 2
    MaxSpans = 2
    MaxFrames = 2
    MaxTasks = 0
    MaxDepth = 2
    Headers <- MC_Headers2
    InSampled = FALSE
    SnapshotOnPush = TRUE
    WithLazy = FALSE
    WithCurrent = FALSE
    FrameKinds <- MC_AllKinds
    Sampler = FALSE
    CtxForms <- MC_FormsNoSampler
    Panics = TRUE
    Emit = TRUE
VIEW tview
INVARIANTS SamplerOncePerTrace DecisionGoverns UnsampledSilent SampledConsistent NoTraceNoParent FrameCarries
PROPERTIES Restored
ACTION_CONSTRAINT EmitReplay
CHECK_DEADLOCK FALSE
