------------------------------- MODULE Otlp -------------------------------
(***************************************************************************)
(* C12 - OTLP export delivers every accepted event however batches are     *)
(* split.  Level B: one signal's pipeline as the code runs it.             *)
(*                                                                         *)
(*  harness thread   emit e1..eN (Channel::push grouping rule, sizes in    *)
(*                   abstract units); blocking_flush (when_flushed) after  *)
(*                   the events in flushAt, always after the last one.     *)
(*  worker           emit_batcher Receiver::exec: take the pending batch,  *)
(*                   OtlpTransport::send loops over its requests, last     *)
(*                   first; a failure returns the remaining requests for   *)
(*                   a retry after a back-off, up to MaxRetry times.       *)
(*  HttpConnection   the sender is taken for a request (poisoned) and put  *)
(*                   back once a response head arrived; a new connection   *)
(*                   is made when there is none.                           *)
(*  collector        environment: per request ack | reject | stall |       *)
(*                   drop before reading | drop after reading, or refuse   *)
(*                   the first connections; at most MaxFaults non-acks.    *)
(*                   A reply has phases - head, body, trailers (gRPC) - and *)
(*                   a stall can hit before each: "stall" (no head yet),   *)
(*                   "stallbody" (head sent, body missing or cut short),   *)
(*                   "stalltrail" (head and message sent, no grpc-status   *)
(*                   trailer), or the reply is cut off after its head      *)
(*                   ("rstbody": the stream is reset while the body is     *)
(*                   read).  RespPhase(d) is how far the reply got.        *)
(*  configuration    transport (HTTP/JSON, HTTP/protobuf, gRPC), gzip, the *)
(*                   configured signals, with / without a resource, with / *)
(*                   without custom headers, the builder entry point: the  *)
(*                   rules here do not depend on any of them, so they are  *)
(*                   crossed with the scenarios when these are run; the    *)
(*                   level-A monitor checks what each request must carry.  *)
(*                                                                         *)
(* DoublePop = TRUE is the send loop as found in the repository (defect    *)
(* F7: `requests.pop()` on success and again after the match).             *)
(***************************************************************************)
EXTENDS Naturals, Sequences, FiniteSets, TLC, Json

CONSTANTS
    NEvents,     \* events 1..NEvents are emitted in this order
    Sizes,       \* encoded sizes an event may have (units)
    Limits,      \* request size limits (units)
    MidFlushes,  \* sets of positions after which the harness also flushes (besides the end)
    Faults,      \* non-ack collector decisions that may occur
    MaxFaults,   \* bound on the number of non-ack decisions
    MaxRetry,    \* the batcher's retry budget
    DoublePop,   \* TRUE: F7 as found
    Emit         \* TRUE: print REPLAY lines

Ev == 1..NEvents

VARIABLES
    size, limit, flushAt,        \* the scenario, chosen initially
    hpc, nEmitted,               \* harness thread
    queue, qSize, qWatch,        \* pending batch (sender side); its flush watcher (0 = none,
                                 \*   else the number of events emitted when it was registered)
    batch, bWatch, inBatch,      \* batch in flight (receiver side) and its flush watcher
    wpc, retries,                \* worker
    conn, nConn,                 \* HttpConnection.sender (0 = none), connections made
    faults,                      \* non-ack decisions so far
    acked, gaveUp,               \* acknowledged requests per event; events of given-up batches
    flushRet, covered,           \* outstanding flush returned; events covered by returned flushes
    lastFail, broken,            \* ids of the request that failed last / connection it broke
    resendOK, freshOK,           \* monitors, see ResendSame / FreshConnAfterBreak
    canon,                       \* canonical schedule: batches are taken only while the harness
                                 \*   waits in a flush
    hist                         \* history (hidden by VIEW): decisions and requests so far

vars == <<size, limit, flushAt, hpc, nEmitted, queue, qSize, qWatch, batch, bWatch, inBatch, wpc,
          retries, conn, nConn, faults, acked, gaveUp, flushRet, covered, lastFail, broken,
          resendOK, freshOK, canon, hist>>
view == <<size, limit, flushAt, hpc, nEmitted, queue, qSize, qWatch, batch, bWatch, inBatch, wpc,
          retries, conn, nConn, faults, acked, gaveUp, flushRet, covered, lastFail, broken,
          resendOK, freshOK, canon>>

\* How far the reply to a failed request got before the failure: "none" - no response head
\* (stall before the head, connection dropped); "head" - the response head arrived (a status
\* reply, or a reply that stalls in a later phase: the request timeout still covers reading
\* the body and the trailers).  HttpConnection puts its sender back as soon as there is a head.
RespPhase(d) == IF d \in {"reject", "stallbody", "stalltrail", "rstbody"} THEN "head" ELSE "none"

Last(s) == s[Len(s)]
Front(s) == SubSeq(s, 1, Len(s) - 1)
Elems(s) == {s[i] : i \in 1..Len(s)}
AllIn(reqs) == UNION {Elems(reqs[i]) : i \in 1..Len(reqs)}

InitRest ==
    /\ hpc = "emit" /\ nEmitted = 0
    /\ queue = <<>> /\ qSize = 0 /\ qWatch = 0
    /\ batch = <<>> /\ bWatch = 0 /\ inBatch = FALSE
    /\ wpc = "idle" /\ retries = 0
    /\ conn = 0 /\ nConn = 0
    /\ faults = 0
    /\ acked = [e \in Ev |-> 0] /\ gaveUp = {}
    /\ flushRet = "none" /\ covered = {}
    /\ lastFail = <<>> /\ broken = 0
    /\ resendOK = TRUE /\ freshOK = TRUE
    /\ canon = TRUE
    /\ hist = [decs |-> <<>>, reqs |-> <<>>]

Init ==
    /\ size \in [Ev -> Sizes]
    /\ limit \in Limits
    /\ flushAt \in {m \cup {NEvents} : m \in MidFlushes}
    /\ InitRest

-----------------------------------------------------------------------------
(* The harness thread *)

AfterFlush == IF nEmitted = NEvents THEN "done" ELSE "emit"

\* client.rs Channel::push: a new request when the channel is empty or the current request
\* has reached the limit, else append to the current (last) request
HEmit ==
    /\ hpc = "emit"
    /\ LET e == nEmitted + 1 IN
       /\ IF queue = <<>> \/ qSize >= limit
          THEN /\ queue' = Append(queue, <<e>>)
               /\ qSize' = size[e]
          ELSE /\ queue' = [queue EXCEPT ![Len(queue)] = Append(@, e)]
               /\ qSize' = qSize + size[e]
       /\ nEmitted' = e
       /\ hpc' = IF e \in flushAt THEN "flush" ELSE "emit"
    /\ UNCHANGED <<size, limit, flushAt, qWatch, batch, bWatch, inBatch, wpc, retries, conn,
                   nConn, faults, acked, gaveUp, flushRet, covered, lastFail, broken, resendOK,
                   freshOK, canon, hist>>

\* Sender::when_flushed: nothing in flight and nothing pending = flushed; else a watcher on
\* the pending batch
HFlush ==
    /\ hpc = "flush"
    /\ IF ~inBatch /\ queue = <<>>
       THEN /\ covered' = covered \cup (1..nEmitted)
            /\ hpc' = AfterFlush
            /\ qWatch' = qWatch
       ELSE /\ covered' = covered
            /\ hpc' = "wait"
            /\ qWatch' = nEmitted
    /\ UNCHANGED <<size, limit, flushAt, nEmitted, queue, qSize, batch, bWatch, inBatch, wpc,
                   retries, conn, nConn, faults, acked, gaveUp, flushRet, lastFail, broken,
                   resendOK, freshOK, canon, hist>>

HReturn ==
    /\ hpc = "wait" /\ flushRet = "ok"
    /\ flushRet' = "none"
    /\ hpc' = AfterFlush
    /\ UNCHANGED <<size, limit, flushAt, nEmitted, queue, qSize, qWatch, batch, bWatch, inBatch,
                   wpc, retries, conn, nConn, faults, acked, gaveUp, covered, lastFail, broken,
                   resendOK, freshOK, canon, hist>>

-----------------------------------------------------------------------------
(* The worker: Receiver::exec *)

WTake ==
    /\ wpc = "idle" /\ queue # <<>>
    /\ batch' = queue /\ bWatch' = qWatch /\ inBatch' = TRUE
    /\ queue' = <<>> /\ qSize' = 0 /\ qWatch' = 0
    /\ retries' = 0 /\ wpc' = "send"
    /\ canon' = (canon /\ hpc = "wait")
    /\ UNCHANGED <<size, limit, flushAt, hpc, nEmitted, conn, nConn, faults, acked, gaveUp,
                   flushRet, covered, lastFail, broken, resendOK, freshOK, hist>>

\* nothing pending: leave the batch, fire the watchers that were waiting for it
WTakeEmpty ==
    /\ wpc = "idle" /\ queue = <<>> /\ (inBatch \/ qWatch # 0)
    /\ inBatch' = FALSE
    /\ flushRet' = IF qWatch # 0 THEN "ok" ELSE flushRet
    /\ covered' = covered \cup (1..qWatch)
    /\ qWatch' = 0
    /\ UNCHANGED <<size, limit, flushAt, hpc, nEmitted, queue, qSize, batch, bWatch, wpc, retries,
                   conn, nConn, faults, acked, gaveUp, lastFail, broken, resendOK, freshOK,
                   canon, hist>>

\* the batch in flight is finished (all requests sent, or given up): notify_on_flush
Finish(newBatch) ==
    /\ batch' = newBatch
    /\ IF newBatch = <<>>
       THEN /\ wpc' = "idle"
            /\ flushRet' = IF bWatch # 0 THEN "ok" ELSE flushRet
            /\ covered' = covered \cup (1..bWatch)
            /\ bWatch' = 0
       ELSE /\ wpc' = "send"
            /\ UNCHANGED <<flushRet, covered, bWatch>>

\* OtlpTransport::send: one request = requests.last(); d is the collector's decision
WSend(d) ==
    /\ wpc = "send" /\ batch # <<>>
    /\ d = "ack" \/ (d \in Faults \ {"refuse"} /\ faults < MaxFaults)
    /\ LET req == Last(batch)
           c == IF conn = 0 THEN nConn + 1 ELSE conn          \* poison(), else connect()
       IN
       /\ nConn' = IF conn = 0 THEN nConn + 1 ELSE nConn
       /\ resendOK' = (resendOK /\ (lastFail # <<>> => req = lastFail))
       /\ freshOK' = (freshOK /\ (broken # 0 => c # broken))
       /\ hist' = IF Emit
                   THEN [decs |-> Append(hist.decs, d),
                         reqs |-> Append(hist.reqs, [ids |-> req, conn |-> c, dec |-> d])]
                   ELSE hist
       /\ IF d = "ack"
          THEN /\ acked' = [e \in Ev |-> IF e \in Elems(req) THEN acked[e] + 1 ELSE acked[e]]
               /\ conn' = c                                    \* unpoison()
               /\ lastFail' = <<>> /\ broken' = 0
               /\ Finish(IF DoublePop /\ Len(batch) >= 2 THEN SubSeq(batch, 1, Len(batch) - 2)
                         ELSE Front(batch))
               /\ UNCHANGED <<faults, retries, gaveUp>>
          ELSE /\ faults' = faults + 1
               /\ acked' = acked
               \* once a response head arrived the sender is put back (also when the reply
               \* then stalls and the request times out); a stall before the head or a dropped
               \* connection leaves it poisoned
               /\ conn' = IF RespPhase(d) = "head" THEN c ELSE 0
               /\ broken' = IF RespPhase(d) = "head" THEN 0 ELSE c
               /\ IF retries < MaxRetry
                  THEN /\ retries' = retries + 1
                       /\ wpc' = "backoff"
                       /\ lastFail' = req
                       /\ UNCHANGED <<batch, gaveUp, flushRet, covered, bWatch>>
                  ELSE /\ gaveUp' = gaveUp \cup AllIn(batch)     \* budget exhausted: dropped
                       /\ lastFail' = <<>>
                       /\ retries' = retries
                       /\ Finish(<<>>)
    /\ UNCHANGED <<size, limit, flushAt, hpc, nEmitted, queue, qSize, qWatch, inBatch, canon>>

\* connect() fails while the endpoint is not up yet (connection refused): a failed attempt
\* the collector never sees
WConnectFail ==
    /\ wpc = "send" /\ batch # <<>>
    /\ "refuse" \in Faults /\ faults < MaxFaults
    /\ conn = 0 /\ nConn = 0
    /\ faults' = faults + 1
    /\ hist' = IF Emit THEN [hist EXCEPT !.decs = Append(@, "refuse")] ELSE hist
    /\ IF retries < MaxRetry
       THEN /\ retries' = retries + 1
            /\ wpc' = "backoff"
            /\ UNCHANGED <<batch, gaveUp, flushRet, covered, bWatch>>
       ELSE /\ gaveUp' = gaveUp \cup AllIn(batch)
            /\ retries' = retries
            /\ Finish(<<>>)
    /\ UNCHANGED <<size, limit, flushAt, hpc, nEmitted, queue, qSize, qWatch, inBatch, conn, nConn,
                   acked, lastFail, broken, resendOK, freshOK, canon>>

WBackoff ==
    /\ wpc = "backoff"
    /\ wpc' = "send"
    /\ UNCHANGED <<size, limit, flushAt, hpc, nEmitted, queue, qSize, qWatch, batch, bWatch,
                   inBatch, retries, conn, nConn, faults, acked, gaveUp, flushRet, covered,
                   lastFail, broken, resendOK, freshOK, canon, hist>>

Send == \E d \in {"ack"} \cup Faults : WSend(d)

Next == HEmit \/ HFlush \/ HReturn \/ WTake \/ WTakeEmpty \/ Send \/ WConnectFail \/ WBackoff

Spec == Init /\ [][Next]_vars
FairSpec == Spec /\ WF_vars(Next)

-----------------------------------------------------------------------------
(* Properties *)

TypeOK ==
    /\ hpc \in {"emit", "flush", "wait", "done"}
    /\ wpc \in {"idle", "send", "backoff"}
    /\ nEmitted \in 0..NEvents
    /\ qWatch \in 0..NEvents /\ bWatch \in 0..NEvents
    /\ faults \in 0..MaxFaults
    /\ retries \in 0..MaxRetry
    /\ flushRet \in {"none", "ok"}
    /\ covered \subseteq 1..nEmitted

\* every request holds at least one event
Grouping ==
    /\ \A i \in 1..Len(queue) : queue[i] # <<>>
    /\ \A i \in 1..Len(batch) : batch[i] # <<>>

\* a flush reports success only when every event emitted before it was acknowledged (or its
\* batch ran out of retry budget, which the statement does not cover)
AtLeastOnce ==
    \A e \in covered : acked[e] >= 1 \/ e \in gaveUp

\* ... and exactly once when no request failed
ExactlyOnceWhenClean ==
    faults = 0 => /\ \A e \in Ev : acked[e] <= 1
                  /\ \A e \in covered : acked[e] = 1

\* the request that follows a failed one carries the same events
ResendSame == resendOK

\* after a stall or a dropped connection the next request travels on a new connection
FreshConnAfterBreak == freshOK

\* nothing is lost silently: an event is pending somewhere, acknowledged, or given up
NoSilentLoss ==
    \A e \in 1..nEmitted :
        \/ acked[e] >= 1
        \/ e \in gaveUp
        \/ e \in AllIn(queue) \cup AllIn(batch)

\* bounded faults: every flush completes (checked without REPLAY/VIEW)
FlushCompletes == <>(hpc = "done")

-----------------------------------------------------------------------------
(* spec -> code: one scenario per faulty request transition of the canonical schedule (the
   worker takes batches only while the harness waits in a flush): event sizes, limit, flush
   positions, the collector's decisions so far (acknowledge afterwards), and the requests the
   specification predicts up to here. *)
EmitReplay ==
    (/\ Emit /\ canon /\ Len(hist'.decs) > Len(hist.decs)
     \* a script ending in "ack" behaves like its prefix (the collector acknowledges once the
     \* script is exhausted): print scripts ending in a fault, and the fault-free run
     /\ (Last(hist'.decs) # "ack" \/ (hpc = "wait" /\ nEmitted = NEvents /\ batch' = <<>> /\ faults' = 0))) =>
        PrintT(<<"REPLAY", ToJson([sizes |-> [e \in Ev |-> size[e]], limit |-> limit,
                                   flushAt |-> flushAt,
                                   decs |-> hist'.decs, reqs |-> hist'.reqs,
                                   gaveup |-> (gaveUp' # {})])>>)
=============================================================================
