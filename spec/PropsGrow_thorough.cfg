\* C02 thorough, deep collections (simulation): grown by <= 9 steps of push-leaf (12 leaves) / wrap (7 wrappers) /
\* and_props with None / and_props of the two topmost; every intermediate collection is checked and replayed.
SPECIFICATION SpecGrow
CONSTANTS
    KeyOrder <- MC_KeyOrder
    IdOrder <- MC_IdOrder
    NModes <- MC_NModes
    Seeds <- MC_Seeds
    Rights <- MC_Rights
    Wraps <- MC_Wraps
    SpanPrefix <- MC_SpanPrefix
    MetricPrefix <- MC_MetricPrefix
    Which = "grow"
    GrowLeaves <- MC_GrowLeaves
    MaxGrow = 9
    MacroGet = "bsearch_scan"
    Emit = TRUE
INVARIANTS GetIsFirst DedupOnceFirst UniqueClaimSound BreakStops EnumIsSpec SerIsEnum
ACTION_CONSTRAINT EmitReplay
CHECK_DEADLOCK FALSE
