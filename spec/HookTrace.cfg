\* trace validation of the repository's own test suites at hook level; trace file named by env TRACE
SPECIFICATION Spec
POSTCONDITION TraceAccepted
CHECK_DEADLOCK FALSE
