\* C01 thorough: events and entries as in quick (extent none / point / forward / empty / inverted range; 12 entries); E: every event x 11 leaf predicates x all 6 entries, and as call-site filter;
\* F: all filter trees of depth <= 2 over {true,false,has_b} (with / without ambient b), depth <= 1 over 11 predicates,
\*    depth 3 over {true,false} with one side of depth <= 1 (and/or(d2,d1), and/or(d1,d2), wrappers(d2)) for Runtime::emit;
\* R: nested Runtime scenario for all 6 entries; node kinds as in quick (wrapping::from_fn, nested Runtime, AssertInternal included);
\* D: all destination trees of depth <= 2 x all entries, and depth 3 (and(d2,d1), and(d1,d2), erased/Some/Arc(d2), wrap(f,d2)) for rt / direct.
\* W: forms: wrappings by value / borrowed / type-erased (with and without Send + Sync), fn-pointer filters and destinations,
\*    filter::always(), events built with with_* / map_props and passed borrowed + erased.
\* V: forms of the runtime's context / clock / rng: by value, &, Box, Arc, Some, Box<dyn Erased..>, AssertInternal, None, Empty
\*    x events with / without extent x 4 ambient sets x clock {none, 7} x 3 filter predicates.
SPECIFICATION Spec
CONSTANTS
    Scens <- MC_Scens
    Scen <- MC_Scen
    Which = "thorough"
    ClockT <- MC_ClockT
    Emit = TRUE
INVARIANTS ExactlyOnce WrappersTransparent DirectBypass ShortCircuit
ACTION_CONSTRAINT EmitReplay
CHECK_DEADLOCK FALSE
