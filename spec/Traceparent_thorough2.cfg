\* C18 thorough (model checking only, TraceparentFilter alone): 2 threads, <= 3 spans, <= 4 frames, 1 task, nesting <= 3, headers sampled / unsampled other trace / invalid (no ids), all forms.
SPECIFICATION Spec
CONSTANTS
    NThreads = 2
    MaxSpans = 3
    MaxFrames = 4
    MaxTasks = 1
    MaxDepth = 3
    Headers <- MC_Headers3
    InSampled = FALSE
    SnapshotOnPush = TRUE
    WithLazy = TRUE
    WithCurrent = TRUE
    Emit = FALSE
VIEW tview
INVARIANTS SamplerOncePerTrace DecisionGoverns UnsampledSilent SampledConsistent NoTraceNoParent FrameCarries
PROPERTIES Restored
ACTION_CONSTRAINT EmitReplay
CHECK_DEADLOCK FALSE
