\* C18 thorough (model checking only, 2; TraceparentFilter alone): 2 threads, <= 2 spans, <= 3 frames, 1 task, nesting <= 2, all eight headers (incl. invalid: no ids, span id only, trace id only) (same trace / other caller span, other trace, both invalid kinds), all forms.
SPECIFICATION Spec
CONSTANTS
    NThreads = 2
    MaxSpans = 2
    MaxFrames = 3
    MaxTasks = 1
    MaxDepth = 2
    Headers <- MC_HeadersAll
    InSampled = FALSE
    SnapshotOnPush = TRUE
    WithLazy = TRUE
    WithCurrent = TRUE
    FrameKinds <- MC_NoKinds
    Sampler = TRUE
    CtxForms <- MC_Forms
    Panics = TRUE
    Emit = FALSE
VIEW tview
INVARIANTS SamplerOncePerTrace DecisionGoverns UnsampledSilent SampledConsistent NoTraceNoParent FrameCarries
PROPERTIES Restored
ACTION_CONSTRAINT EmitReplay
CHECK_DEADLOCK FALSE
