---------------------------- MODULE FileSetBase ----------------------------
(***************************************************************************)
(* C10 / C11 - level A (observable) model of a rolling file set.           *)
(*                                                                         *)
(* One record `o` holds exactly what the property statements talk about:   *)
(* the directory, per file the synced and unsynced content as tokens,      *)
(* which events have been reported as written, the running retry chain,    *)
(* the files touched / created / removed by the running batch, the file    *)
(* of the last successful batch.  The operators Obs* are the effects of    *)
(* the events visible at the environment boundary (clock reading, every    *)
(* filesystem call with its result, the value on_batch returns, crash,     *)
(* restart).  They do not constrain the worker's control flow; a clause    *)
(* of the statement that is about a step (not a state) adds its name to    *)
(* o.bad when the step breaks it.  spec/FileWorker.tla (level B, the       *)
(* code call by call) and spec/FileSetTrace.tla (traces recorded from the  *)
(* real worker) both drive these operators, so the clauses are written     *)
(* once.                                                                   *)
(*                                                                         *)
(* Names are integers: own n >= 0 is period*100 + counter*10 + id, whose   *)
(* integer order is the byte order of the zero padded text                 *)
(* prefix.period.counter.id.ext; foreign files (not of this set, or not    *)
(* parseable) are negative.  Tokens are integers: e > 0 the complete bytes *)
(* of event e including its separator, -e a torn proper prefix of them,    *)
(* 0 one separator, 99 bytes that are none of these.                       *)
(***************************************************************************)
EXTENDS Integers, Sequences, FiniteSets, TLC

CONSTANT EvSize      \* EvSize[e] = number of bytes of event e (incl. separator)

None == -100
IsOwn(n) == n >= 0
PeriodOf(n) == n \div 100
MsOf(n) == (n \div 10) % 10
MkName(p, ms, rid) == p * 100 + ms * 10 + rid
SameTick(a, b) == (a \div 10) = (b \div 10)

Sep == 0
Garbage == 99
IsEv(t) == t > 0 /\ t # Garbage
TokBytes(t) == IF IsEv(t) THEN EvSize[t] ELSE 1
SeqRange(s) == {s[i] : i \in 1..Len(s)}
RECURSIVE SeqBytes(_)
SeqBytes(s) == IF s = <<>> THEN 0 ELSE TokBytes(Head(s)) + SeqBytes(Tail(s))
MinOf(S) == CHOOSE x \in S : \A y \in S : x <= y
MaxOf(S) == CHOOSE x \in S : \A y \in S : x >= y

EmptyFile == [syn |-> <<>>, uns |-> <<>>, len |-> 0, ent |-> FALSE]

ObsInit(maxFiles, maxSize) == [
    files |-> <<>>,        \* own files in the directory: name -> [syn, uns, len, ent]
    acked |-> {},          \* events of batches (retry chains) reported as written
    gone |-> {},           \* events that were synced in files removed by retention
    chain |-> <<>>,        \* events of the originally submitted batch of the running chain
    done |-> {},           \* events of the chain whose write completed successfully
    rest |-> <<>>,         \* remainder handed back for retry (next call must take it)
    evs |-> <<>>, bytes |-> 0, rp |-> 0, rms |-> 0,     \* running call: events, size, clock reading
    touched |-> {}, created |-> {}, rmTried |-> {}, retFault |-> FALSE, inBatch |-> FALSE,
    lastGood |-> None,     \* file of the last call that returned Ok (None after failure/restart)
    lastCreated |-> None,  \* last created file since the clock last stepped back
    prevRead |-> -1,
    maxFiles |-> maxFiles, maxSize |-> maxSize,
    bad |-> {}]

AddBad(o, S) == [o EXCEPT !.bad = @ \cup S]

-----------------------------------------------------------------------------
\* on_batch is entered with these events (bytes = their total size); the clock reads (rp, rms)
ObsBegin(o, evs, bytes, rp, rms) ==
    LET rd == rp * 10 + rms
        retry == o.rest # <<>>
    IN [o EXCEPT
          !.chain = IF retry THEN @ ELSE evs,
          !.done = IF retry THEN @ ELSE {},
          !.evs = evs, !.bytes = bytes, !.rp = rp, !.rms = rms,
          !.touched = {}, !.created = {}, !.rmTried = {}, !.retFault = FALSE, !.inBatch = TRUE,
          !.lastCreated = IF o.prevRead > rd THEN None ELSE @,
          !.prevRead = rd,
          !.bad = @ \cup (IF retry /\ evs # o.rest THEN {"EnvRetryMismatch"} ELSE {})]

ObsCreate(o, n, res) ==
    LET lg == o.lastGood
        \* RollOnlyWhen: a new file only after (re)start / failure, a period change, or when
        \* the batch would take the current file past the size limit
        allowed == \/ lg = None
                   \/ lg \notin DOMAIN o.files
                   \/ PeriodOf(lg) # o.rp
                   \/ o.files[lg].len + o.bytes > o.maxSize
        nameOk == IsOwn(n) /\ PeriodOf(n) = o.rp /\ MsOf(n) = o.rms
        lc == o.lastCreated
        b == (IF allowed THEN {} ELSE {"RollOnlyWhen"})
             \cup (IF res = "ok" /\ ~nameOk THEN {"NameIs"} ELSE {})
             \cup (IF res = "ok" /\ IsOwn(n) /\ lc # None /\ ~SameTick(lc, n) /\ n < lc
                   THEN {"NewestFirst"} ELSE {})
             \* same period and counter: the order is decided by the random id (finding F15)
             \cup (IF res = "ok" /\ IsOwn(n) /\ lc # None /\ SameTick(lc, n) /\ n < lc
                   THEN {"NewestFirstTie"} ELSE {})
    IN IF res = "ok" /\ IsOwn(n)
       THEN [o EXCEPT !.files = (n :> EmptyFile) @@ @, !.created = @ \cup {n},
                      !.lastCreated = n, !.bad = @ \cup b]
       ELSE AddBad(o, b)

ObsWrite(o, n, tok, res) ==
    IF ~IsOwn(n) THEN AddBad(o, {"OwnSetOnly"})
    ELSE IF n \notin DOMAIN o.files THEN o
    ELSE LET f == o.files[n]
             first == n \notin o.touched /\ n \notin o.created
             \* MustRoll: never continue a file of another period or that the batch overflows
             mustRoll == first /\ ~(PeriodOf(n) = o.rp /\ f.len + o.bytes <= o.maxSize)
             tokOk == tok = Sep \/ (IsEv(tok) /\ tok \in SeqRange(o.evs))
             app == IF res = "ok" THEN <<tok>> ELSE IF res = "short" THEN <<-tok>> ELSE <<>>
             t2 == o.touched \cup {n}
             b == (IF mustRoll THEN {"MustRoll"} ELSE {})
                  \cup (IF tokOk THEN {} ELSE {"NoGarbage"})
                  \cup (IF Cardinality(t2) > 1 THEN {"OneFilePerBatch"} ELSE {})
         IN [o EXCEPT !.files[n] = [f EXCEPT !.uns = @ \o app, !.len = @ + SeqBytes(app)],
                      !.touched = t2,
                      !.done = IF res = "ok" /\ IsEv(tok) THEN @ \cup {tok} ELSE @,
                      !.bad = @ \cup b]

ObsSync(o, n, res) ==
    IF res = "ok" /\ n \in DOMAIN o.files
    THEN LET f == o.files[n] IN [o EXCEPT !.files[n] = [f EXCEPT !.syn = @ \o f.uns, !.uns = <<>>]]
    ELSE o

ObsSyncDir(o, res) ==
    IF res = "ok"
    THEN LET fs == o.files IN [o EXCEPT !.files = [m \in DOMAIN fs |-> [fs[m] EXCEPT !.ent = TRUE]]]
    ELSE o

ObsRemove(o, n, res) ==
    IF ~IsOwn(n) THEN AddBad(o, {"OwnSetOnly"})
    ELSE LET fs == o.files
             cand == DOMAIN fs \ o.rmTried
             oldest == n \in cand /\ n = MinOf(cand)
             hit == res = "ok" /\ n \in DOMAIN fs
         IN [o EXCEPT !.rmTried = @ \cup {n},
                      !.bad = @ \cup (IF oldest THEN {} ELSE {"OldestFirst"}),
                      !.files = IF hit THEN [m \in DOMAIN fs \ {n} |-> fs[m]] ELSE @,
                      !.gone = IF hit /\ fs[n].ent THEN @ \cup {t \in SeqRange(fs[n].syn) : IsEv(t)} ELSE @,
                      !.retFault = IF res = "ok" THEN @ ELSE TRUE,
                      !.lastGood = IF hit /\ n = @ THEN None ELSE @]

\* one filesystem call: op, the file it names (None for directory calls), the token of a
\* write, the result ("ok" | "err" | "short" = some bytes written, then an error)
ObsCall(o, op, n, tok, res) ==
    CASE op = "list" -> IF res = "ok" THEN o ELSE [o EXCEPT !.retFault = TRUE]
      [] op = "openex" -> IF IsOwn(n) THEN o ELSE AddBad(o, {"OwnSetOnly"})
      [] op = "opennew" -> ObsCreate(o, n, res)
      [] op = "syncdir" -> ObsSyncDir(o, res)
      [] op = "write" -> ObsWrite(o, n, tok, res)
      [] op = "sync" -> ObsSync(o, n, res)
      [] op = "remove" -> ObsRemove(o, n, res)
      [] OTHER -> o        \* mkdir, len, flush: no effect on the observable state

\* every event dropped from the front of the batch was completely written; the rest is
\* handed back whole
RetryWhole(o, rest) ==
    \E k \in 1..(Len(o.evs) + 1) :
        /\ rest = SubSeq(o.evs, k, Len(o.evs))
        /\ \A i \in 1..(k - 1) : o.evs[i] \in o.done

\* on_batch returns: "ok" | "retry" (with the remainder) | "noretry" | "panic"
ObsEnd(o, res, rest) ==
    LET own == DOMAIN o.files
        ok == res = "ok"
        b == (IF ok /\ \E n \in o.touched \cap own : o.files[n].uns # <<>>
              THEN {"AckOnlyAfterSync"} ELSE {})
             \* the events of a batch reported as written went to exactly one file OF THE SET: a
             \* file that is in the directory when the call returns (not one the call itself -
             \* its own retention - has removed again, whatever order the names sort in)
             \cup (IF ok /\ o.evs # <<>> /\ o.touched \cap own = {} THEN {"OneFilePerBatch"} ELSE {})
             \cup (IF ok /\ o.created # {} /\ ~o.retFault /\ Cardinality(own) > o.maxFiles
                   THEN {"Retained"} ELSE {})
             \cup (IF res = "retry" /\ ~RetryWhole(o, rest) THEN {"RetryIsWhole"} ELSE {})
             \cup (IF res = "panic" THEN {"NoPanic"} ELSE {})
    IN [o EXCEPT
          !.acked = IF ok THEN @ \cup SeqRange(o.chain) ELSE @,
          !.rest = IF res = "retry" THEN rest ELSE <<>>,
          !.chain = IF res = "retry" /\ rest # <<>> THEN @ ELSE <<>>,
          !.lastGood = IF ok /\ Cardinality(o.touched) = 1
                       THEN CHOOSE n \in o.touched : TRUE ELSE None,
          !.inBatch = FALSE,
          !.bad = @ \cup b]

\* A crash: c is a set of [n, k, t, v]: of file n the first k unsynced tokens survive, the
\* last of them torn if t; a file whose directory entry was never synced vanishes if v.
\* Files not mentioned lose all unsynced content.  The worker's state is lost.
ObsCrash(o, c) ==
    LET fs == o.files
        pick(n) == IF \E r \in c : r.n = n THEN CHOOSE r \in c : r.n = n
                   ELSE [n |-> n, k |-> 0, t |-> FALSE, v |-> FALSE]
        surv == {n \in DOMAIN fs : ~(pick(n).v /\ ~fs[n].ent)}
        newf(n) == LET f == fs[n]
                       r == pick(n)
                       k == IF r.k > Len(f.uns) THEN Len(f.uns) ELSE r.k
                       kept0 == SubSeq(f.uns, 1, k)
                       kept == IF r.t /\ k > 0 /\ IsEv(kept0[k])
                               THEN [kept0 EXCEPT ![k] = -@] ELSE kept0
                       s == f.syn \o kept
                   IN [syn |-> s, uns |-> <<>>, len |-> SeqBytes(s), ent |-> TRUE]
    IN [o EXCEPT !.files = [n \in surv |-> newf(n)],
                 !.rest = <<>>, !.chain = <<>>, !.lastGood = None, !.inBatch = FALSE]

\* the worker is dropped and constructed again (unsynced content stays in the OS cache)
ObsRestart(o) ==
    [o EXCEPT !.rest = <<>>, !.chain = <<>>, !.lastGood = None, !.inBatch = FALSE]

\* the channel gives up on the remainder (retries exhausted): the chain has failed for good
ObsGiveUp(o) == [o EXCEPT !.rest = <<>>, !.chain = <<>>]

-----------------------------------------------------------------------------
(* The clauses.  C10: Durable RecordsWellFormed RetryIsWhole AckOnlyAfterSync NoGarbage.    *)
(* C11: OneFilePerBatch RollOnlyWhen MustRoll NameIs NewestFirst Retained OldestFirst       *)
(* NoPanic OwnSetOnly.  (NewestFirstTie is finding F15 and is not part of NewestFirst.)     *)

\* every event reported as written is complete in synced content (of a file in the
\* directory whose entry is synced too, or of one retention removed) - in every state, in
\* particular after a crash
DurableOf(o) ==
    \A e \in o.acked :
        e \in o.gone \/ \E n \in DOMAIN o.files : o.files[n].ent /\ e \in SeqRange(o.files[n].syn)

\* a torn record is followed by a separator or is last: never bytes of two events run together
WellFormedOf(o) ==
    \A n \in DOMAIN o.files :
        LET s == o.files[n].syn \o o.files[n].uns
        IN \A i \in 1..Len(s) :
              /\ s[i] # Garbage /\ s[i] # -Garbage
              /\ s[i] < 0 => (i = Len(s) \/ s[i + 1] = Sep)

StateBadOf(o) == (IF DurableOf(o) THEN {} ELSE {"Durable"})
                 \cup (IF WellFormedOf(o) THEN {} ELSE {"RecordsWellFormed"})

C10Clauses == {"Durable", "RecordsWellFormed", "RetryIsWhole", "AckOnlyAfterSync", "NoGarbage"}
C11Clauses == {"OneFilePerBatch", "RollOnlyWhen", "MustRoll", "NameIs", "NewestFirst",
               "Retained", "OldestFirst", "NoPanic", "OwnSetOnly"}
=============================================================================
