----------------------------- MODULE MCOtlpAsm -----------------------------
EXTENDS OtlpAsm
CONSTANT Which     \* "quick" | "thorough" | "firstwins"

Sigs == {"logs", "traces", "metrics"}
HttpPath(sig) == CASE sig = "logs" -> "/v1/logs" [] sig = "traces" -> "/v1/traces" [] sig = "metrics" -> "/v1/metrics"
Tr(sig, proto, gzip, path) == [sig |-> sig, proto |-> proto, gzip |-> gzip, path |-> path]
Transports == {Tr(s, p, g, HttpPath(s)) : s \in Sigs, p \in {"http_json", "http_proto", "grpc"}, g \in BOOLEAN}
\* a custom ingestion path (HTTP only)
CustomPaths == {Tr(s, p, FALSE, "/ingest/otlp/tenant-7/" \o s) : s \in Sigs, p \in {"http_json", "http_proto"}}

A(k, v) == [k |-> k, v |-> v]
NoRes == [some |-> FALSE, attrs |-> <<>>]
Res(attrs) == [some |-> TRUE, attrs |-> attrs]
Sn == "service.name"
R1 == Res(<<A(Sn, "svc-a")>>)
R2 == Res(<<A(Sn, "svc-a"), A("deployment.environment", "prod")>>)
ResourcesQ == {NoRes, Res(<<>>), R1, R2,
               Res(<<A(Sn, "svc-a"), A(Sn, "svc-b")>>),                                                   \* duplicate key
               Res(<<A(Sn, "svc-a"), A("deployment.environment", "prod"), A(Sn, "svc-b"), A("deployment.environment", "prod")>>)}
ResourcesT == ResourcesQ \cup
              {Res(<<A("deployment.environment", "prod"), A(Sn, "svc-a"), A("deployment.environment", "test"), A(Sn, "svc-a"), A(Sn, "svc-c")>>),
               Res(<<A("telemetry.sdk.name", "emit_otlp"), A(Sn, "svc-a"), A("telemetry.sdk.language", "rust")>>)}

H0 == <<>>
H1 == <<A("authorization", "Bearer t0k3n")>>
H2 == <<A("X-Tenant", "7"), A("x-dup", "one"), A("x-dup", "two")>>                                       \* mixed case name, duplicate name
HeaderSets == {H0, H1, H2}

Mods == {"m1", "m2", "m1::x"}
SeqsN(S, n) == UNION {[1..k -> S] : k \in 1..n}
BatchesQ == {<<b>> : b \in SeqsN(Mods, 3)} \cup {<<b, c>> : b \in SeqsN(Mods, 2), c \in SeqsN(Mods, 1)}
BatchesT == {<<b>> : b \in SeqsN(Mods, 4)} \cup {<<b, c>> : b \in SeqsN(Mods, 2), c \in SeqsN(Mods, 2)}
OneBatch == <<"m1", "m2", "m1", "m1::x">>

Mk(tr, r, h, bs) == [tr |-> tr, res |-> r, hdrs |-> h, batches |-> bs]
PlainHttp == Tr("logs", "http_proto", FALSE, "/v1/logs")

MC_Cases ==
    IF Which = "firstwins" THEN {Mk(PlainHttp, r, H0, <<OneBatch>>) : r \in ResourcesQ}
    ELSE LET Bs == IF Which = "quick" THEN BatchesQ ELSE BatchesT
             Rs == IF Which = "quick" THEN ResourcesQ ELSE ResourcesT
             TrG == IF Which = "quick" THEN {t \in Transports : t.gzip = (t.proto = "http_proto")} ELSE Transports
         IN \* grouping: every transport x every batch sequence
            {Mk(t, R2, H1, bs) : t \in TrG, bs \in Bs}
            \* resource and headers: every transport x every resource x every header list, one batch
            \cup {Mk(t, r, h, <<OneBatch>>) : t \in Transports \cup CustomPaths, r \in Rs, h \in HeaderSets}
=============================================================================
