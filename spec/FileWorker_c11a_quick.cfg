\* C11 quick (a): max_files {1,2,3}, max size {1 (always over), 8 (two events), 1000}, reuse on/off; <= 3 submitted
\* batches of <= 2 events, no injected fault, no crash, 1 clean restart at any point between batches;
\* clock same / later in the period / next period / back one period; batches optionally preceded by an overflow
\* truncation (3 bytes pushed then cleared); the random id of a same-millisecond file above or below the earlier one.
SPECIFICATION Spec
CONSTANTS
    EvSize <- MC_EvSize
    MaxFilesSet = {1, 2, 3}
    MaxSizeSet = {1, 8, 1000}
    ReuseSet = {TRUE, FALSE}
    NumEvents = 4
    MaxEv = 2
    MaxBatches = 3
    MaxCalls = 4
    MaxFaults = 0
    MaxCrashes = 0
    MaxReopens = 1
    MaxFmtFail = 0
    FmtFails = {}
    SepForms = {"nl"}
    WriterEnds = {"sep"}
    Ticks = {"same", "later", "next", "back"}
    RetryTicks = {"same", "next"}
    Phantoms = {0, 3}
    RidDirs = {"up", "down"}
    MaxPeriod = 3
    MaxMs = 2
    Emit = TRUE
VIEW view
INVARIANTS Durable RecordsWellFormed RetryIsWhole AckOnlyAfterSync NoGarbage
    OneFilePerBatch RollOnlyWhen MustRoll NameIs NewestFirst Retained OldestFirst NoPanic OwnSetOnly
    EnvOk ActiveIsLastGood
ACTION_CONSTRAINT EmitReplay
CHECK_DEADLOCK FALSE
