\* Batcher q8: s1 = raw when_empty with a panicking callback, send; s2 = send, raw when_empty with a panicking callback, try_send; f1 = blocking flush (no timeout); Cap 1, MaxRetry 10 (hard-coded by bounded()), <= 1 processor faults, FALSE remainders, receiver kill FALSE; idle spinning cut at 3 ms. Exhaustive.
SPECIFICATION Spec
CONSTANTS
    SenderOps <- Q8_SenderOps
    FlusherOps <- Q8_FlusherOps
    Cap = 1
    MaxRetry = 10
    MaxFail = 1
    AnyRemainder = FALSE
    NonEmptyRem = FALSE
    OutcomeSet = {"ok", "fail", "retry", "panic", "panicFut"}
    AllowKill = FALSE
    MaxIdleDelay = 3
    Emit = TRUE
VIEW view
CONSTRAINT IdleBound
INVARIANTS TypeOK Bounded Partition StatusConsistent TruncCounted FlushMeansDone FlushRetTruthful RetryBounded BackoffBounded CallbackOnce SendNeverWaits
ACTION_CONSTRAINT EmitReplay
CHECK_DEADLOCK FALSE
