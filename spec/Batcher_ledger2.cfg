\* Batcher ledger refinement, q4 constants (async flush, a callback that blocks the receiver): Batcher.tla implements BatcherLedger.tla (PROPERTY LedgerSpec) and its proved Safe holds through the mapping. Exhaustive.
SPECIFICATION Spec
CONSTANTS
    SenderOps <- Q4_SenderOps
    FlusherOps <- Q4_FlusherOps
    Cap = 1
    MaxRetry = 10
    MaxFail = 1
    AnyRemainder = FALSE
    NonEmptyRem = FALSE
    OutcomeSet = {"ok", "fail", "retry", "panic", "panicFut"}
    AllowKill = FALSE
    MaxIdleDelay = 3
    Emit = FALSE
VIEW view
CONSTRAINT IdleBound
INVARIANTS TypeOK LedgerSafe
CHECK_DEADLOCK FALSE
PROPERTY LedgerSpec
