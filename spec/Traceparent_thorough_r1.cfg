\* C18 thorough (replay 1; sampled-trace filter on): 1 thread, <= 2 spans, <= 3 frames, 1 task, nesting <= 3, headers sampled, unsampled other trace, invalid with sampled flag (no ids, span id only, trace id only), all forms; every transition replayed.
SPECIFICATION Spec
CONSTANTS
    NThreads = 1
    MaxSpans = 2
    MaxFrames = 3
    MaxTasks = 1
    MaxDepth = 3
    Headers <- MC_HeadersInvS
    InSampled = TRUE
    SnapshotOnPush = TRUE
    WithLazy = TRUE
    WithCurrent = TRUE
    FrameKinds <- MC_NoKinds
    Sampler = TRUE
    CtxForms <- MC_Forms
    Panics = TRUE
    Emit = TRUE
VIEW tview
INVARIANTS SamplerOncePerTrace DecisionGoverns UnsampledSilent SampledConsistent NoTraceNoParent FrameCarries
PROPERTIES Restored
ACTION_CONSTRAINT EmitReplay
CHECK_DEADLOCK FALSE
