\* C04 thorough (model checking only, 2): 2 threads, <= 3 spans (verdict free), <= 4 frames, no tasks, nesting <= 3, sync forms, incoming ids (pair, trace id alone, span id alone), hand-off. Span nodes with explicit trace_id / span_parent / span_id included.
SPECIFICATION SSpec
CONSTANTS
    NThreads = 2
    StoreOf <- MC_Store1
    InstKind <- MC_Kind1
    NKeys = 3
    PropChoices <- MC_None
    DupChoices <- MC_NoDups
    Kinds <- MC_None
    Forms <- MC_None
    MaxFrames = 4
    MaxTasks = 0
    MaxDepth = 3
    Panics = TRUE
    Discards = FALSE
    MaxSpans = 3
    IncomingKinds <- MC_IncAll
    WithLazy = FALSE
    HasRng = TRUE
    ExplicitKinds <- MC_ExBoth
    PushLastWins = FALSE
    WithCancel = FALSE
    CancelOwnIds = FALSE
    CtxForms <- MC_Forms
    Emit = FALSE
VIEW sview
INVARIANTS InnermostWins NoTrace StackOK FrameIds AmbientIds OneTrace ParentIsEnclosing EventCarriesInnermost IdsDistinct
PROPERTIES Revert
ACTION_CONSTRAINT SEmitReplay
CHECK_DEADLOCK FALSE
