------------------------------ MODULE OtlpChan ------------------------------
(***************************************************************************)
(* C09 carry-through to the OTLP emitter: the `emit_batcher::Channel`      *)
(* contract as the batcher relies on it, for the OTLP emitter's own        *)
(* Channel (emitter/otlp/src/client.rs `impl emit_batcher::Channel for     *)
(* Channel`), composed with `Sender::send` and the receiver's hand-over.   *)
(*                                                                         *)
(* Level A (the statement): `pending` - the events accepted and not yet    *)
(* handed over - never exceeds the capacity at any emit; a send that finds *)
(* the queue full discards the whole pending queue, keeps the new event    *)
(* and counts one truncation; nothing else is lost.                        *)
(*                                                                         *)
(* Level B (the code): the channel groups events into size-limited         *)
(* requests (`requests`, `current_request_size_bytes`) and keeps its own   *)
(* counter `total_items`; `len()` must be the number of EVENTS across all  *)
(* pending requests (not the number of requests), `push` increases it by   *)
(* one, `clear` resets it to 0, the receiver's take hands everything over. *)
(* Sender::send: `if len() >= capacity { clear(); truncated += 1 }; push`. *)
(*                                                                         *)
(* LenCountsRequests = TRUE is the contract broken the way a channel that  *)
(* counts its requests would break it (design counterexample).             *)
(***************************************************************************)
EXTENDS Naturals, Sequences, FiniteSets, TLC, Json

CONSTANTS
    Capacity,           \* the channel's bound (events)
    Sizes,              \* encoded event sizes (units)
    Limits,             \* request size limits (units): small = many requests per batch
    MaxOps,             \* bound on the number of operations
    LenCountsRequests,  \* TRUE: len() = number of requests (the broken contract)
    Emit                \* TRUE: print REPLAY lines

VARIABLES
    limit,              \* chosen initially
    reqs, curSize,      \* level B: pending requests (sequences of event ids), size of the last
    total,              \* level B: total_items
    pending,            \* level A: sequence of pending event ids
    trunc,              \* truncation counter
    lost,               \* events discarded by truncations
    handed,             \* events handed over to the receiver
    nsent, nops,
    hist                \* history (hidden): ops and the predicted (pending, trunc) after each

vars == <<limit, reqs, curSize, total, pending, trunc, lost, handed, nsent, nops, hist>>
view == <<limit, reqs, curSize, total, pending, trunc, lost, handed, nsent, nops>>

Elems(s) == {s[i] : i \in 1..Len(s)}
AllIn(rs) == UNION {Elems(rs[i]) : i \in 1..Len(rs)}
RECURSIVE SumLen(_)
SumLen(rs) == IF rs = <<>> THEN 0 ELSE Len(rs[1]) + SumLen(Tail(rs))

\* Channel::len
ChanLen == IF LenCountsRequests THEN Len(reqs) ELSE total

Init ==
    /\ limit \in Limits
    /\ reqs = <<>> /\ curSize = 0 /\ total = 0
    /\ pending = <<>> /\ trunc = 0 /\ lost = {} /\ handed = {}
    /\ nsent = 0 /\ nops = 0
    /\ hist = <<>>

\* Sender::send of one event of size z
Send(z) ==
    /\ nops < MaxOps
    /\ LET e == nsent + 1
           full == ChanLen >= Capacity
           \* Channel::clear
           r0 == IF full THEN <<>> ELSE reqs
           c0 == IF full THEN 0 ELSE curSize
           t0 == IF full THEN 0 ELSE total
           p0 == IF full THEN <<>> ELSE pending
       IN
       /\ trunc' = IF full THEN trunc + 1 ELSE trunc
       /\ lost' = IF full THEN lost \cup Elems(pending) ELSE lost
       \* Channel::push
       /\ IF r0 = <<>> \/ c0 >= limit
          THEN reqs' = Append(r0, <<e>>) /\ curSize' = z
          ELSE reqs' = [r0 EXCEPT ![Len(r0)] = Append(@, e)] /\ curSize' = c0 + z
       /\ total' = t0 + 1
       /\ pending' = Append(p0, e)
       /\ nsent' = e
       /\ nops' = nops + 1
       /\ hist' = Append(hist, [op |-> "send", pending |-> Len(pending'), trunc |-> trunc'])
    /\ UNCHANGED <<limit, handed>>

\* the receiver takes the pending batch (mem::replace with a fresh channel)
Take ==
    /\ nops < MaxOps
    /\ pending # <<>>
    /\ handed' = handed \cup Elems(pending)
    /\ reqs' = <<>> /\ curSize' = 0 /\ total' = 0 /\ pending' = <<>>
    /\ nops' = nops + 1
    /\ hist' = Append(hist, [op |-> "take", pending |-> 0, trunc |-> trunc])
    /\ UNCHANGED <<limit, trunc, lost, nsent>>

Next == (\E z \in Sizes : Send(z)) \/ Take
Spec == Init /\ [][Next]_vars

-----------------------------------------------------------------------------
(* Properties *)

TypeOK == /\ total \in 0..(MaxOps + 1) /\ trunc \in 0..MaxOps /\ nops \in 0..MaxOps

\* level B refines level A: the requests hold exactly the pending events, in order
RequestsHoldPending ==
    /\ AllIn(reqs) = Elems(pending)
    /\ SumLen(reqs) = Len(pending)
    /\ \A i \in 1..Len(reqs) : reqs[i] # <<>>

\* len() is the number of pending EVENTS, however they are grouped into requests
LenIsEvents == ChanLen = Len(pending)

\* the bound, at every emit
PendingBounded == Len(pending) <= Capacity

\* nothing is lost except by a counted truncation
Conservation ==
    /\ Elems(pending) \cup lost \cup handed = 1..nsent
    /\ Elems(pending) \cap lost = {} /\ Elems(pending) \cap handed = {} /\ lost \cap handed = {}
    /\ (trunc = 0) <=> (lost = {})

-----------------------------------------------------------------------------
(* spec -> code: one scenario per complete operation sequence: the operations with the
   predicted pending count and truncation counter after each, and the surviving events. *)
EmitReplay ==
    (Emit /\ nops' = MaxOps) =>
        PrintT(<<"REPLAY", ToJson([cap |-> Capacity, ops |-> hist',
                                   survive |-> handed' \cup Elems(pending'), lost |-> lost'])>>)
=============================================================================
