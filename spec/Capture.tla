------------------------------ MODULE Capture ------------------------------
(***************************************************************************)
(* C19 - captured values keep their type and structure from call site to   *)
(* sink.                                                                   *)
(*                                                                         *)
(* Value fidelity is not a transition-system question; what the            *)
(* specification carries is                                                *)
(*   - the MEANING TABLE: Meaning(mode, class) = the components of the     *)
(*     observation vector the statement promises for a value of a type     *)
(*     class captured under a capture mode;                                *)
(*   - the TRANSFORMATION PATHS a captured value can take before it is     *)
(*     read (by reference, type erasure, owned / shared copies, buffering  *)
(*     in a ThreadLocalCtxt frame, moving to another thread) and which     *)
(*     components each step must preserve (Survives).                      *)
(* Concrete values come from the harness's pool (harness/vh_enc).          *)
(*                                                                         *)
(* Components:                                                             *)
(*   present  the property exists (get = Some, enumerated exactly once)    *)
(*   absent   the property does not exist at all (optional None)           *)
(*   pull     Props::pull / Value::cast::<T>() returns the original value  *)
(*   display  to_string() is the original's Display text                   *)
(*   debug    to_string() and {:?} are the original's Debug text           *)
(*   debug_or_text  ... or the text itself (str captured with as_debug)     *)
(*   tree     serde_json and sval_json of the value are what the original  *)
(*            produces, whichever framework captured it                    *)
(*   chain    to_borrowed_error() yields the original's source chain       *)
(*   null     the value is the null value (as_value of None)               *)
(***************************************************************************)
EXTENDS Naturals, Sequences, FiniteSets, TLC, Json

CONSTANTS
    MaxSteps,   \* bound on the length of a transformation path
    Emit        \* TRUE: print one REPLAY line per transition

Modes == {"default", "as_display", "as_display_inspect", "as_debug", "as_debug_inspect",
          "as_value", "as_value_inspect", "as_sval", "as_sval_inspect", "as_serde",
          "as_serde_inspect", "as_error", "err_key",
          "optional_default", "optional_as_value", "optional_as_sval", "optional_as_serde",
          "optional_as_debug"}
OptionalModes == {"optional_default", "optional_as_value", "optional_as_sval",
                  "optional_as_serde", "optional_as_debug"}

\* type classes; the Rust types of each class are listed by the harness (one real macro
\* call site per (mode, type))
Prim == {"int", "float", "bool", "str"}          \* numbers, booleans, strings
Structured == {"struct", "enum", "seq", "map", "bytes", "option_some", "option_none"}
Classes == Prim \cup Structured \cup {"float32", "char", "error", "display_only", "debug_only",
                                      "none_prim", "none_struct"}

Inspected == {"int", "float", "float32", "bool", "char"}

Base(m) ==
    CASE m = "optional_default" -> "default"
      [] m = "optional_as_value" -> "as_value"
      [] m = "optional_as_sval" -> "as_sval"
      [] m = "optional_as_serde" -> "as_serde"
      [] m = "optional_as_debug" -> "as_debug"
      [] OTHER -> m

\* which call sites exist (the traits each capture mode requires)
Valid(m, c) ==
    LET b == Base(m) IN
    IF m \in OptionalModes
    THEN CASE c \in {"none_prim"} -> b \in {"default", "as_value", "as_debug"}
           [] c \in {"none_struct"} -> b \in {"as_sval", "as_serde", "as_debug"}
           [] c \in Prim -> b \in {"default", "as_value", "as_sval", "as_serde", "as_debug"}
           [] c \in {"struct", "seq", "map"} -> b \in {"as_sval", "as_serde", "as_debug"}
           [] OTHER -> FALSE
    ELSE CASE c \in Prim -> b \in Modes \ (OptionalModes \cup {"as_error", "err_key"})
           [] c \in {"float32", "char"} -> b \in {"default", "as_display", "as_display_inspect", "as_debug",
                                                  "as_debug_inspect", "as_sval", "as_serde"}
           [] c \in {"struct", "enum"} -> b \in {"default", "as_display", "as_debug", "as_debug_inspect", "as_sval",
                                                  "as_sval_inspect", "as_serde", "as_serde_inspect"}
           [] c \in {"seq", "map", "bytes"} -> b \in {"as_debug", "as_sval", "as_sval_inspect", "as_serde",
                                                       "as_serde_inspect"}
           [] c \in {"option_some", "option_none"} -> b \in {"as_value", "as_sval", "as_serde", "as_debug"}
           [] c = "error" -> b \in {"as_error", "err_key", "default", "as_display", "as_debug"}
           [] c = "display_only" -> b \in {"default", "as_display", "as_display_inspect"}
           [] c = "debug_only" -> b \in {"as_debug", "as_debug_inspect"}
           [] OTHER -> FALSE

Sites == {<<m, c>> \in Modes \X Classes : Valid(m, c)}

\* THE MEANING TABLE (level A: the statement)
Meaning(m, c) ==
    LET b == Base(m) IN
    IF c \in {"none_prim", "none_struct"} THEN {"absent"}       \* optional None: no property at all
    ELSE {"present"} \cup
        CASE b = "default" ->
                \* numbers, booleans, strings pull back typed; anything else displays
                IF c \in Prim \cup {"float32"} THEN {"pull"} ELSE {"display"}
          \* `inspect: true` asks for the value to be captured as the primitive it is; how a
          \* number / bool / char then formats is not promised (don't-care)
          [] b \in {"as_display_inspect", "as_debug_inspect"} /\ c \in Inspected -> {}
          [] b \in {"as_display", "as_display_inspect"} -> {"display"}
          \* a str is captured as the string it is under every mode (impl Capture* for str):
          \* its own text or its Debug text are both accepted
          [] b \in {"as_debug", "as_debug_inspect"} -> IF c = "str" THEN {"debug_or_text"} ELSE {"debug"}
          [] b \in {"as_value", "as_value_inspect"} ->
                CASE c \in Prim -> {"pull"}
                  [] c = "option_some" -> {"pull"}
                  [] c = "option_none" -> {"null"}
                  [] OTHER -> {}
          [] b \in {"as_sval", "as_sval_inspect", "as_serde", "as_serde_inspect"} -> {"tree"}
          [] b \in {"as_error", "err_key"} -> {"chain"}
          [] OTHER -> {}

\* what a transformation step must preserve
Steps == {"ByRef", "Erase", "EraseEvent", "ToOwned", "ToShared", "IntoCtxt", "MoveThread", "ReadBack"}
All == {"present", "absent", "pull", "display", "debug", "debug_or_text", "tree", "chain", "null"}
Survives(s) ==
    CASE s \in {"ByRef", "Erase", "EraseEvent", "ReadBack"} -> All   \* read directly / type-erased: everything
      \* numbers, booleans, strings and structured values survive buffering and threads;
      \* Display/Debug text and error identity after buffering: not promised (don't-care)
      [] s \in {"ToOwned", "ToShared", "IntoCtxt", "MoveThread"} -> {"present", "absent", "pull", "tree", "null"}

VARIABLES
    site,   \* <<mode, class>>
    rep,    \* where the value lives: "val" (a borrowed Value), "owned", "shared", "frame"
    thr,    \* 0: the capturing thread, 1: another thread
    comp,   \* level B: the components still promised, updated step by step
    hist    \* the path so far (part of the state: every path is enumerated)

vars == <<site, rep, thr, comp, hist>>

Init ==
    /\ site \in Sites
    /\ rep = "val"
    /\ thr = 0
    /\ comp = Meaning(site[1], site[2])
    /\ hist = <<>>

Step(s, from, to) ==
    /\ Len(hist) < MaxSteps
    /\ rep \in from
    /\ rep' = to
    /\ comp' = comp \cap Survives(s)
    /\ hist' = Append(hist, s)
    /\ UNCHANGED site

ByRef == Step("ByRef", {"val"}, "val") /\ UNCHANGED thr
Erase == Step("Erase", {"val"}, "val") /\ UNCHANGED thr
EraseEvent == Step("EraseEvent", {"val"}, "val") /\ UNCHANGED thr
ToOwned == Step("ToOwned", {"val"}, "owned") /\ UNCHANGED thr
ToShared == Step("ToShared", {"val"}, "shared") /\ UNCHANGED thr
IntoCtxt == Step("IntoCtxt", {"val"}, "frame") /\ UNCHANGED thr
\* only owned data can change threads
MoveThread == Step("MoveThread", {rep} \cap {"owned", "shared", "frame"}, rep) /\ thr' = 1 - thr
ReadBack == Step("ReadBack", {"owned", "shared", "frame"}, "val") /\ UNCHANGED thr

Next == ByRef \/ Erase \/ EraseEvent \/ ToOwned \/ ToShared \/ IntoCtxt \/ MoveThread \/ ReadBack

Spec == Init /\ [][Next]_vars

-----------------------------------------------------------------------------
(* Level A: the promise for a whole path, defined declaratively *)
RECURSIVE Meet(_, _)
Meet(path, i) == IF i > Len(path) THEN All ELSE Survives(path[i]) \cap Meet(path, i + 1)
Promise == Meaning(site[1], site[2]) \cap Meet(hist, 1)

TypeOK == rep \in {"val", "owned", "shared", "frame"} /\ thr \in {0, 1} /\ comp \subseteq All

\* the step-by-step bookkeeping computes the promise
Preserved == comp = Promise

\* the clauses of the statement, as invariants over every reachable path
PresenceNeverLost ==
    /\ "present" \in Meaning(site[1], site[2]) => "present" \in comp
    /\ "absent" \in Meaning(site[1], site[2]) => comp = {"absent"}
TypedSurvivesBuffering ==
    (site[2] \in Prim /\ Base(site[1]) \in {"default", "as_value", "as_value_inspect"}) => "pull" \in comp
StructureSurvivesBuffering ==
    Base(site[1]) \in {"as_sval", "as_sval_inspect", "as_serde", "as_serde_inspect"}
        /\ site[2] \notin {"none_prim", "none_struct"} => "tree" \in comp
DirectReadKeepsAll ==
    (\A i \in 1..Len(hist) : hist[i] \in {"ByRef", "Erase", "EraseEvent"}) => comp = Meaning(site[1], site[2])

-----------------------------------------------------------------------------
(* spec -> code: one REPLAY line per transition: the call site, the path and the
   components the statement promises at its end. *)
EmitReplay ==
    Emit => PrintT(<<"REPLAY", ToJson([mode |-> site[1], class |-> site[2], path |-> hist',
                                        promise |-> comp'])>>)

\* the call sites and their meaning, printed once (also the zero-length paths)
SiteTable == {[mode |-> s[1], class |-> s[2], promise |-> Meaning(s[1], s[2])] : s \in Sites}
=============================================================================
