------------------------------ MODULE Capture ------------------------------
(***************************************************************************)
(* C19 - captured values keep their type and structure from call site to   *)
(* sink.                                                                   *)
(*                                                                         *)
(* Value fidelity is not a transition-system question; what the            *)
(* specification carries is                                                *)
(*   - the MEANING TABLE: Meaning(mode, class) = the components of the     *)
(*     observation vector the statement promises for a value of a type     *)
(*     class captured under a capture mode;                                *)
(*   - the TRANSFORMATION PATHS a captured value can take before it is     *)
(*     read (by reference, type erasure, owned / shared copies, buffering  *)
(*     in a ThreadLocalCtxt frame, moving to another thread) and which     *)
(*     components each step must preserve (Survives).                      *)
(* Concrete values come from the harness's pool (harness/vh_enc).          *)
(*                                                                         *)
(* Components:                                                             *)
(*   present  the property exists (get = Some, enumerated exactly once)    *)
(*   absent   the property does not exist at all (optional None)           *)
(*   pull     Props::pull / Value::cast::<T>() returns the original value  *)
(*   display  to_string() is the original's Display text                   *)
(*   debug    to_string() and {:?} are the original's Debug text           *)
(*   debug_or_text  ... or the text itself (str captured with as_debug)     *)
(*   tree     serde_json and sval_json of the value are what the original  *)
(*            produces, whichever framework captured it                    *)
(*   chain    to_borrowed_error() yields the original's source chain       *)
(*            ... and Display shows the top error alone or with the ROOT   *)
(*            cause (the last link) in parentheses, never another link     *)
(*   null     the value is the null value (as_value of None)               *)
(*   text_stable  a number / boolean / string captured typed shows the same *)
(*            Display text on every representation and read path (the copy *)
(*            "survives unchanged": compared with the captured Value)      *)
(*                                                                         *)
(* Dimensions of a case: call site = capture mode (incl. the attribute's   *)
(* ARGUMENT inspect: absent / false / true) x type class x WRAP (the macro *)
(* form around the capture: props!, renamed key before / after the mode,   *)
(* evt! property, evt! template hole); transformation path; READER (the    *)
(* read path used on the final representation: every one the type offers); *)
(* values (every pool extreme for short paths, one seeded draw otherwise). *)
(***************************************************************************)
EXTENDS Naturals, Sequences, FiniteSets, TLC, Json

\* FORMATTER FLAG FAMILIES.  "Display text" / "Debug text" is not one text: a reader formats a value
\* under a formatter ({}, {:#?}, {:>10.2?}, ...).  The display / debug / debug_or_text components say
\* that the captured value formats AS THE ORIGINAL WOULD UNDER THE SAME FORMATTER, for the plain
\* formatter and for every family below, through Display ({:..}) and through Debug ({:..?}), on every
\* representation and read path that still promises the component; text_stable likewise compares
\* the flagged texts with those of the captured Value (except hex: the two's complement width of a
\* typed integer is a detail of the representation).  A template hole carrying flags
\* (#[emit::fmt("#?")], #[emit::fmt(">8.2?")], #[emit::fmt(">8.2")]) is such a reader too.
\*   alt        #          width      >10        fill   *>6
\*   prec       .2         widthprec  >8.2       sign   +
\*   zero       06         hex        x? and #06x? (Debug only)
FmtFamilies == {"alt", "width", "fill", "prec", "widthprec", "sign", "zero", "hex"}

CONSTANTS
    MaxSteps,   \* bound on the length of a transformation path
    ExhaustUpTo,\* paths up to this length are run on EVERY extreme of the value pool
    Emit        \* TRUE: print one REPLAY line per observation

\* capture attributes take one argument, `inspect`: absent, `inspect: false` (= absent), `inspect: true`
Modes == {"default", "as_display", "as_display_inspect", "as_display_inspect_false",
          "as_debug", "as_debug_inspect", "as_debug_inspect_false",
          "as_value", "as_value_inspect", "as_value_inspect_false",
          "as_sval", "as_sval_inspect", "as_sval_inspect_false",
          "as_serde", "as_serde_inspect", "as_serde_inspect_false", "as_error", "err_key",
          \* the other well-known keys with a capture of their own (macros/src/capture.rs default_fn_name)
          "lvl_key", "trace_id_key", "span_id_key", "span_parent_key",
          "optional_default", "optional_as_value", "optional_as_sval", "optional_as_serde",
          "optional_as_debug",
          \* no attribute and no macro: the conversion API the capture traits rest on, as a hand-built
          \* property uses it - Value::from(x) (From<T>, From<&T>, From<Option<T>>, From<&[T; N]>) and
          \* x.to_value() on trait objects (dyn Display / dyn Debug / dyn Error) and arrays
          "from_value"}
OptionalModes == {"optional_default", "optional_as_value", "optional_as_sval",
                  "optional_as_serde", "optional_as_debug"}

\* type classes; the Rust types of each class are listed by the harness (one real macro
\* call site per (mode, type, wrap)).  "str" is a &str expression, "string" a String.
Prim == {"int", "float", "bool", "str", "string"}          \* numbers, booleans, strings
Structured == {"struct", "enum", "seq", "map", "bytes", "option_some", "option_none"}
\* capture INPUT FORMS beyond a plain sized value: trait objects, references to references,
\* a str where an error is expected, and the typed / borrowed / optional / textual forms the
\* well-known keys accept
InputForms == {"dyn_display", "dyn_debug", "ref_ref", "err_str", "wk_value", "wk_text", "wk_none"}
WkModes == {"lvl_key", "trace_id_key", "span_id_key", "span_parent_key"}
Classes == Prim \cup Structured \cup InputForms \cup {"float32", "char", "error", "display_only", "debug_only",
                                      "none_prim", "none_struct",
                                      "arr"}     \* a fixed-size array of primitives, [T; N] / &[T; N]
NoneClasses == {"none_prim", "none_struct", "wk_none"}

\* captured as the primitive it is when inspected
Inspected == {"int", "float", "float32", "bool", "char", "str", "string"}

\* `inspect: false` means the same as no argument
Base(m) ==
    CASE m = "optional_default" -> "default"
      [] m = "optional_as_value" -> "as_value"
      [] m = "optional_as_sval" -> "as_sval"
      [] m = "optional_as_serde" -> "as_serde"
      [] m = "optional_as_debug" -> "as_debug"
      [] m = "as_display_inspect_false" -> "as_display"
      [] m = "as_debug_inspect_false" -> "as_debug"
      [] m = "as_value_inspect_false" -> "as_value"
      [] m = "as_sval_inspect_false" -> "as_sval"
      [] m = "as_serde_inspect_false" -> "as_serde"
      [] OTHER -> m

\* the macro form around the capture
\* ... and attribute ORDER: a true `#[cfg(all())]` on the pair, written before the capture attribute(s)
\* (cfg_first), after them (cfg_last), or between `#[emit::optional]` and the mode (cfg_between).  A cfg
\* that holds does not change the capture mode: the meaning is that of the site without it.
Wraps == {"props", "key_first", "key_last", "evt_prop", "evt_hole", "cfg_first", "cfg_last", "cfg_between"}
WrapModes == {"default", "as_display", "as_debug", "as_value", "as_sval", "as_serde", "as_error"}
WrapClasses == {"int", "string", "struct", "error"}

\* which call sites exist (the traits each capture mode requires)
PlainModes == {"default", "as_display", "as_display_inspect", "as_debug", "as_debug_inspect", "as_value",
               "as_value_inspect", "as_sval", "as_sval_inspect", "as_serde", "as_serde_inspect"}
ValidBase(m, b, c) ==
    IF m \in OptionalModes
    THEN CASE c \in {"none_prim"} -> b \in {"default", "as_value", "as_debug"}
           [] c \in {"none_struct"} -> b \in {"as_sval", "as_serde", "as_debug"}
           [] c \in Prim -> b \in {"default", "as_value", "as_sval", "as_serde", "as_debug"}
           [] c \in {"struct", "seq", "map"} -> b \in {"as_sval", "as_serde", "as_debug"}
           [] OTHER -> FALSE
    ELSE CASE b = "from_value" -> c \in Prim \cup {"option_some", "option_none", "error", "dyn_display", "dyn_debug", "arr"}
           [] c = "arr" -> FALSE
           [] c \in Prim -> b \in PlainModes
           [] c \in {"float32", "char"} -> b \in {"default", "as_display", "as_display_inspect", "as_debug",
                                                  "as_debug_inspect", "as_sval", "as_serde"}
           [] c \in {"struct", "enum"} -> b \in {"default", "as_display", "as_debug", "as_debug_inspect", "as_sval",
                                                  "as_sval_inspect", "as_serde", "as_serde_inspect"}
           [] c \in {"seq", "map", "bytes"} -> b \in {"as_debug", "as_sval", "as_sval_inspect", "as_serde",
                                                       "as_serde_inspect"}
           [] c \in {"option_some", "option_none"} -> b \in {"as_value", "as_sval", "as_serde", "as_debug"}
           [] c = "error" -> b \in {"as_error", "err_key", "default", "as_display", "as_debug"}
           [] c = "err_str" -> b \in {"as_error", "err_key"}
           \* (a bare `&dyn Display` / `&dyn Debug` only compiles with `inspect: true`: the
           \* un-inspected capture traits are implemented for sized types)
           [] c = "dyn_display" -> b \in {"as_display_inspect"}
           [] c = "dyn_debug" -> b \in {"as_debug_inspect"}
           [] c = "ref_ref" -> b \in {"as_display", "as_debug", "as_value", "as_sval", "as_serde"}
           [] c \in {"wk_value", "wk_text", "wk_none"} -> b \in WkModes
           [] c = "display_only" -> b \in {"default", "as_display", "as_display_inspect"}
           [] c = "debug_only" -> b \in {"as_debug", "as_debug_inspect"}
           [] OTHER -> FALSE
\* the explicit `inspect: false` sites: for the classes where inspecting makes a difference
Valid(m, c) ==
    IF m \in {"as_display_inspect_false", "as_debug_inspect_false", "as_value_inspect_false",
              "as_sval_inspect_false", "as_serde_inspect_false"}
    THEN ValidBase(Base(m), Base(m), c) /\ c \in {"int", "float", "string", "char", "struct", "debug_only", "display_only"}
    ELSE ValidBase(m, Base(m), c)
ValidWrap(m, c, w) ==
    \/ w = "props"
    \/ w = "cfg_between" /\ m \in OptionalModes /\ c \in WrapClasses /\ Valid(m, c)
    \/ w = "cfg_first" /\ m \in WrapModes /\ c \in WrapClasses /\ Valid(m, c)
    \/ w = "cfg_last" /\ m \in WrapModes \cup OptionalModes /\ c \in WrapClasses /\ Valid(m, c)
    \/ w \notin {"props", "cfg_first", "cfg_last", "cfg_between"} /\ m \in WrapModes /\ c \in WrapClasses /\ Valid(m, c)

Sites == {s \in Modes \X Classes \X Wraps : Valid(s[1], s[2]) /\ ValidWrap(s[1], s[2], s[3])}

\* THE MEANING TABLE (level A: the statement)
Meaning(m, c) ==
    LET b == Base(m) IN
    IF c \in NoneClasses THEN {"absent"}       \* optional None / None under a well-known key: no property at all
    ELSE {"present"} \cup
        CASE b = "from_value" ->
                \* the conversions keep what the value is: typed primitives, the content of an Option
                \* (None: the null value), the error with its chain, the trait object's text, and the
                \* array as the sequence it is
                CASE c \in Prim -> {"pull", "text_stable"}
                  [] c = "option_some" -> {"pull"}
                  [] c = "option_none" -> {"null"}
                  [] c = "error" -> {"chain"}
                  [] c = "dyn_display" -> {"display"}
                  [] c = "dyn_debug" -> {"debug"}
                  [] c = "arr" -> {"tree"}
                  [] OTHER -> {}
          [] b = "default" ->
                \* numbers, booleans, strings pull back typed; anything else displays
                IF c \in Prim \cup {"float32"} THEN {"pull", "text_stable"} ELSE {"display"}
          \* `inspect: true` asks for the value to be captured as the primitive it is; how a
          \* number / bool / char then formats is not promised (don't-care)
          [] b \in {"as_display_inspect", "as_debug_inspect"} /\ c \in Inspected -> {}
          [] b = "as_display_inspect" /\ c = "dyn_display" -> {"display"}
          [] b = "as_debug_inspect" /\ c = "dyn_debug" -> {"debug"}
          [] b \in {"as_display", "as_display_inspect"} -> {"display"}
          \* a &str is captured as the string it is under every mode (impl Capture* for str):
          \* its own text or its Debug text are both accepted; a String formats with Debug
          [] b \in {"as_debug", "as_debug_inspect"} -> IF c = "str" THEN {"debug_or_text"} ELSE {"debug"}
          \* level / ids under their keys: whatever form they were given in, they pull back typed
          [] b \in WkModes -> {"pull"}
          \* a str where an error is expected is captured as the string it is
          [] b \in {"as_error", "err_key"} /\ c = "err_str" -> {"pull", "text_stable"}
          [] b \in {"as_value", "as_value_inspect"} ->
                CASE c \in Prim \cup {"ref_ref"} -> {"pull", "text_stable"}
                  [] c = "option_some" -> {"pull"}
                  [] c = "option_none" -> {"null"}
                  [] OTHER -> {}
          [] b \in {"as_sval", "as_sval_inspect", "as_serde", "as_serde_inspect"} -> {"tree"}
          [] b \in {"as_error", "err_key"} -> {"chain"}
          [] OTHER -> {}

\* what a transformation step must preserve
Steps == {"ByRef", "Erase", "EraseEvent", "ToOwned", "ToShared", "IntoCtxt", "PushFrame", "MoveThread", "ReadBack"}
All == {"present", "absent", "pull", "display", "debug", "debug_or_text", "tree", "chain", "null", "text_stable"}
Survives(s) ==
    CASE s \in {"ByRef", "Erase", "EraseEvent", "ReadBack"} -> All   \* read directly / type-erased: everything
      \* numbers, booleans, strings and structured values survive buffering and threads;
      \* Display/Debug text and error identity after buffering: not promised (don't-care)
      [] s \in {"ToOwned", "ToShared", "IntoCtxt", "PushFrame", "MoveThread"} ->
            {"present", "absent", "pull", "tree", "null", "text_stable"}

\* TYPED READ PATHS of a Value, offered where the call site promises the typed component:
\*   as_f64        Value::as_f64 of a number: the number as the f64 it converts to
\*   cast_string   cast::<String>() of a string: an owned copy of it
\*   borrowed_str  Value::to_borrowed_str / cast_ref_str  cast::<&str>(): the string itself, borrowed.
\*                 While the value has only been passed by reference / type-erased (never copied
\*                 into an owned form) the borrow must be there; afterwards it may be absent
\*                 (None), never a different string
\*   cast_error    cast::<&(dyn Error + 'static)>(): the error, for the chain
TypedReaders(st) ==
    LET m == Meaning(st[1], st[2]) IN
    (IF "pull" \in m /\ st[2] \in {"int", "float", "float32"} THEN {"as_f64"} ELSE {})
    \cup (IF "pull" \in m /\ st[2] \in {"str", "string", "err_str"}
          THEN {"borrowed_str", "cast_ref_str", "cast_string"} ELSE {})
    \cup (IF "chain" \in m THEN {"cast_error"} ELSE {})

\* THE READ PATHS each representation offers (the final observation goes through one of them)
Readers(r, path, st) ==
    CASE r = "val" ->
            TypedReaders(st) \cup
            {"value",        \* the Value's own methods / impls
             "clone",        \* a clone of it
             "to_value",     \* ToValue::to_value / Value::from_any
             "render"}       \* a template hole rendered with it (what every sink's message shows)
            \cup (IF path = <<>> THEN {"enumerated",   \* taken from Props::for_each instead of get
                                      "pulled"}       \* Props::pull::<Value>
                  ELSE {})
      [] r \in {"owned", "shared"} ->
            {"direct",       \* the impls of OwnedValue itself: Display, Debug, Serialize, sval::Value, From<&OwnedValue>
             "by_ref", "clone", "to_value"}
      [] r = "frame" ->
            {"get", "for_each", "pull",    \* entered: Ctxt::with_current, then Props::get / for_each / pull
             "frame_props"}                \* the frame itself as Props, without entering it

VARIABLES
    site,   \* <<mode, class, wrap>>
    rep,    \* where the value lives: "val" (a borrowed Value), "owned", "shared", "frame"
    thr,    \* 0: the capturing thread, 1: another thread
    comp,   \* level B: the components still promised, updated step by step
    hist,   \* the path so far (part of the state: every path is enumerated)
    obs     \* "none", or the reader the final observation was taken with (terminal)

vars == <<site, rep, thr, comp, hist, obs>>

Init ==
    /\ site \in Sites
    /\ rep = "val"
    /\ thr = 0
    /\ comp = Meaning(site[1], site[2])
    /\ hist = <<>>
    /\ obs = "none"

\* the macro form only matters for the capture: wrapped sites get short paths
StepBound == IF site[3] = "props" THEN MaxSteps ELSE 1

Step(s, from, to) ==
    /\ obs = "none"
    /\ Len(hist) < StepBound
    /\ rep \in from
    /\ rep' = to
    /\ comp' = comp \cap Survives(s)
    /\ hist' = Append(hist, s)
    /\ UNCHANGED <<site, obs>>

ByRef == Step("ByRef", {"val"}, "val") /\ UNCHANGED thr
Erase == Step("Erase", {"val"}, "val") /\ UNCHANGED thr
EraseEvent == Step("EraseEvent", {"val"}, "val") /\ UNCHANGED thr
ToOwned == Step("ToOwned", {"val"}, "owned") /\ UNCHANGED thr
ToShared == Step("ToShared", {"val"}, "shared") /\ UNCHANGED thr
IntoCtxt == Step("IntoCtxt", {"val"}, "frame") /\ UNCHANGED thr
\* a child frame opened with open_push inside the frame: the properties are copied into it
PushFrame == Step("PushFrame", {"frame"}, "frame") /\ UNCHANGED thr
\* only owned data can change threads
MoveThread == Step("MoveThread", {rep} \cap {"owned", "shared", "frame"}, rep) /\ thr' = 1 - thr
ReadBack == Step("ReadBack", {"owned", "shared", "frame"}, "val") /\ UNCHANGED thr

\* the final observation, through one of the read paths of the representation
Observe ==
    /\ obs = "none"
    /\ \E r \in Readers(rep, hist, site) : obs' = r
    /\ UNCHANGED <<site, rep, thr, comp, hist>>

Next == ByRef \/ Erase \/ EraseEvent \/ ToOwned \/ ToShared \/ IntoCtxt \/ PushFrame \/ MoveThread \/ ReadBack
        \/ Observe

Spec == Init /\ [][Next]_vars

-----------------------------------------------------------------------------
(* Level A: the promise for a whole path, defined declaratively *)
RECURSIVE Meet(_, _)
Meet(path, i) == IF i > Len(path) THEN All ELSE Survives(path[i]) \cap Meet(path, i + 1)
Promise == Meaning(site[1], site[2]) \cap Meet(hist, 1)

TypeOK == rep \in {"val", "owned", "shared", "frame"} /\ thr \in {0, 1} /\ comp \subseteq All
          /\ (obs = "none" \/ obs \in Readers(rep, hist, site))

\* no read path weakens the promise: what is promised for the representation is promised for
\* every reader of it (Observe leaves comp unchanged) - stated as an action property
ReadersAgree == [][obs' # obs => comp' = comp]_vars

\* the step-by-step bookkeeping computes the promise
Preserved == comp = Promise

\* the clauses of the statement, as invariants over every reachable path
PresenceNeverLost ==
    /\ "present" \in Meaning(site[1], site[2]) => "present" \in comp
    /\ "absent" \in Meaning(site[1], site[2]) => comp = {"absent"}
TypedSurvivesBuffering ==
    (site[2] \in Prim /\ Base(site[1]) \in {"default", "as_value", "as_value_inspect", "from_value"})
        => {"pull", "text_stable"} \subseteq comp
StructureSurvivesBuffering ==
    /\ Base(site[1]) \in {"as_sval", "as_sval_inspect", "as_serde", "as_serde_inspect"}
        /\ site[2] \notin NoneClasses => "tree" \in comp
    /\ site[2] = "arr" => "tree" \in comp
DirectReadKeepsAll ==
    (\A i \in 1..Len(hist) : hist[i] \in {"ByRef", "Erase", "EraseEvent"}) => comp = Meaning(site[1], site[2])

-----------------------------------------------------------------------------
(* spec -> code: one REPLAY line per observation: the call site, the path, the reader and
   the components the statement promises there. *)
EmitReplay ==
    (Emit /\ obs' # "none" /\ obs = "none") =>
        PrintT(<<"REPLAY", ToJson([mode |-> site[1], class |-> site[2], wrap |-> site[3], path |-> hist,
                                    reader |-> obs', promise |-> comp, fmts |-> FmtFamilies,
                                    \* the value has only been passed by reference / type-erased so far
                                    direct |-> \A i \in 1..Len(hist) : hist[i] \in {"ByRef", "Erase", "EraseEvent"},
                                    values |-> IF Len(hist) <= ExhaustUpTo THEN "all" ELSE "draw"])>>)

\* the call sites and their meaning, printed once
SiteTable == {[mode |-> s[1], class |-> s[2], wrap |-> s[3], promise |-> Meaning(s[1], s[2])] : s \in Sites}
=============================================================================
