---------------------------- MODULE FileSetTrace ----------------------------
(***************************************************************************)
(* C10 / C11 - code -> spec: decides traces recorded from the real         *)
(* emit_file worker (harness/vh_file) at level A.  The trace is ndjson,    *)
(* one object per event:                                                   *)
(*   {"ev":"reset","sid":i,"maxFiles":m,"maxSize":s}   a new scenario      *)
(*   {"ev":"begin","evs":[..],"bytes":b,"p":p,"ms":ms} on_batch entered    *)
(*   {"ev":"call","op":..,"n":name,"tok":t,"res":..}   a filesystem call   *)
(*   {"ev":"end","res":..,"rest":[..]}                 on_batch returned   *)
(*   {"ev":"crash","c":[{n,k,t,v}..]}  {"ev":"restart"}  {"ev":"fin"}      *)
(* The monitor is deterministic: it applies the effect of every event to   *)
(* the observable state and collects the clauses that a step or a state    *)
(* broke; the verdict of each scenario is printed when the next begins.    *)
(***************************************************************************)
EXTENDS FileSetBase, Json, IOUtils

Rec == ndJsonDeserialize(IOEnv.TRACE)

VARIABLES o, l, sbad, sid
tvars == <<o, l, sbad, sid>>

TInit == o = ObsInit(1, 1) /\ l = 1 /\ sbad = {} /\ sid = -1

Verdict ==
    PrintT(<<"VERDICT", ToJson([sid |-> sid, bad |-> o.bad \cup sbad \cup StateBadOf(o)])>>)

Effect(r) ==
    CASE r.ev = "begin" -> ObsBegin(o, r.evs, r.bytes, r.p, r.ms)
      [] r.ev = "call" -> ObsCall(o, r.op, r.n, r.tok, r.res)
      [] r.ev = "end" -> ObsEnd(o, r.res, r.rest)
      [] r.ev = "crash" -> ObsCrash(o, SeqRange(r.c))
      [] r.ev = "restart" -> ObsRestart(o)

TNext ==
    /\ l <= Len(Rec)
    /\ l' = l + 1
    /\ LET r == Rec[l] IN
       IF r.ev \in {"reset", "fin"}
       THEN /\ (sid >= 0 => Verdict)
            /\ o' = IF r.ev = "reset" THEN ObsInit(r.maxFiles, r.maxSize) ELSE o
            /\ sbad' = {}
            /\ sid' = IF r.ev = "reset" THEN r.sid ELSE -1
       ELSE /\ o' = Effect(r)
            /\ sbad' = sbad \cup StateBadOf(o)
            /\ UNCHANGED sid

TSpec == TInit /\ [][TNext]_tvars

TraceAccepted ==
    LET d == TLCGet("stats").diameter IN
    IF d - 1 = Len(Rec) THEN TRUE
    ELSE Print(<<"UNMATCHED", d, IF d <= Len(Rec) THEN ToJson(Rec[d]) ELSE "end">>, FALSE)
=============================================================================
