------------------------------ MODULE SlotTrace ------------------------------
(***************************************************************************)
(* C20 binding, code -> spec: decides whether the call-start / call-end    *)
(* events recorded from real threads racing on a real AmbientSlot are a    *)
(* behaviour of Slot.tla (linearizability style).                          *)
(*                                                                         *)
(* The trace (ndjson, env TRACE) is the concatenation of many rounds; every *)
(* round ran on a fresh slot.  Events, ordered by the number each took     *)
(* from one SeqCst counter (call start: before the call, call end: after   *)
(* it returned):                                                           *)
(*   {"e":"Reset","n":round,"slot":"fresh|shared|internal"}                *)
(*        the kind of slot the round runs on; an initialiser may only use  *)
(*        the entry points of that kind (KindsFor)                         *)
(*   {"e":"InitCall","i":tag,"k":kind,"f":form}   form = how the           *)
(*        configuration is built (Slot.tla, SetupForms / RuntimeForms)     *)
(*   {"e":"InitRet","i":tag,"r":"some|nil|ok|panic","own":bool}            *)
(*   {"e":"ObsCall","o":id,"op":op,"via":entry point,"tmo":timeout}        *)
(*   {"e":"ObsRet","o":id,"tags":[5 tags],"en":bool,"fl":bool,"pan":bool,  *)
(*    "ne":k,"fls":[leaf..],"fas":[bool..],"fb":"na|eq|lt|gt"}             *)
(*        fl = what flush returned; ne = invocations of tagged emitter     *)
(*        destinations during the operation; fls / fas = the destinations  *)
(*        asked to flush, in order, and their answers; fb = the sum of the *)
(*        budgets they were handed compared with the caller's timeout      *)
(*        (na: none was asked)                                             *)
(*   {"e":"HCall","i":tag,"op":"h_probe|h_flush|h_guard_drop|              *)
(*    h_guard_unwind","tmo":..}                                            *)
(*   {"e":"HRet","i":tag,"tags":[5 tags],"fl":bool,"ne":k,"fls":[..],      *)
(*    "fas":[..],"fb":..,"pan":bool}  an operation of an initialiser of a  *)
(*        Setup form on what it was handed (the winner: its Init handle;   *)
(*        a loser of a try_ form: nothing - the guard operations only)     *)
(*   {"e":"Tally","used":[invocations of the components tagged 1..]}       *)
(*   {"e":"Hang","t":thread,"in":call}  a call that never returned: no     *)
(*                  action matches it, the round is rejected               *)
(* An initialiser's "panic" result is accepted only where Slot.tla's RetOf *)
(* yields it: init_slot that lost.  The flush timeout (zero, 1 ns, 1 ms,   *)
(* 1 s, Duration::MAX) and entry point are chosen by the harness; the      *)
(* demands below hold for all of them.                                     *)
(* TrySet / Read are not logged: TLC places them between call and return.  *)
(* Every call contributes exactly one internal step, so a trace is         *)
(* accepted iff the search reaches depth  Len(Rec) + #calls.               *)
(***************************************************************************)
EXTENDS Slot, Json, IOUtils

Rec == ndJsonDeserialize(IOEnv.TRACE)

VARIABLES l,       \* next event to match
          target   \* the kind of slot of the current round

tvars == <<vars, hvars, l, target>>

IsEv(name) == l <= Len(Rec) /\ Rec[l].e = name
Ev == Rec[l]

TInit == Init /\ l = 1 /\ target = "none"

\* a new round on a fresh slot; nothing of the previous round may be pending
TReset ==
    /\ IsEv("Reset")
    /\ \A i \in Inits : ipc[i] \in {"idle", "returned"}
    /\ \A o \in Observers : opc[o] \in {"idle", "returned"}
    /\ PrintT(<<"ROUND", Ev.n>>)
    /\ slot' = Empty /\ flag' = FALSE
    /\ ipc' = [i \in Inits |-> "idle"]
    /\ ikind' = [i \in Inits |-> "none"]
    /\ ires' = [i \in Inits |-> "none"]
    /\ iret' = [i \in Inits |-> "none"]
    /\ iform' = [i \in Inits |-> "none"]
    /\ opc' = [o \in Observers |-> "idle"]
    /\ oop' = [o \in Observers |-> "none"]
    /\ oread' = [o \in Observers |-> <<>>]
    /\ ocount' = [o \in Observers |-> 0]
    /\ omust' = [o \in Observers |-> FALSE]
    /\ seenEnabled' = FALSE
    /\ obsLog' = {}
    /\ \A i \in Inits : hnd[i].pc = "idle"
    /\ hnd' = [i \in Inits |-> NoHandle] /\ hLog' = {}
    /\ target' = Ev.slot
    /\ l' = l + 1

TInitCall ==
    /\ IsEv("InitCall") /\ Ev.i \in Inits
    /\ Ev.k \in KindsFor(target) /\ Ev.f \in Forms
    /\ InitCall(Ev.i, Ev.k, Ev.f)
    /\ l' = l + 1 /\ UNCHANGED <<target, hvars>>

\* the result is the one the specification determines; a successful initialiser is handed
\* references to its own components
TInitRet ==
    /\ IsEv("InitRet") /\ Ev.i \in Inits
    /\ InitRet(Ev.i, Ev.r)
    /\ Success(Ev.r) => Ev.own
    /\ l' = l + 1 /\ UNCHANGED <<target, hvars>>

TObsCall ==
    /\ IsEv("ObsCall") /\ Ev.o \in Observers /\ ObsCall(Ev.o, Ev.op)
    /\ l' = l + 1 /\ UNCHANGED <<target, hvars>>

\* what a flush through a configuration with n destinations, splitting the budget or not, must
\* look like: every destination asked once, in order; the result is the conjunction of their
\* answers; the budgets handed out fit the caller's timeout - and are the caller's timeout where
\* nothing stands between
FlushSeen(ev, n, split) ==
    /\ ev.fls = [k \in 1..n |-> k]
    /\ Len(ev.fas) = n
    /\ ev.fb \in (IF n = 0 THEN {"na"} ELSE IF split THEN {"eq", "lt"} ELSE {"eq"})
FlushAnswer(ev) == \A k \in 1..Len(ev.fas) : ev.fas[k]

\* the observation is the one the read determines: the same tag in every component the
\* operation exercises (every destination of the emitter reached once), is_enabled accordingly,
\* never a panic; flush returns true on the empty slot (whatever the timeout) without any
\* emitter being asked, and on an initialised slot it returns what the installed emitter's
\* destinations answered
TObsRet ==
    /\ IsEv("ObsRet") /\ Ev.o \in Observers
    /\ opc[Ev.o] = "read"
    /\ ~Ev.pan
    /\ LET res == ResultOf(Ev.o)
       IN /\ \A k \in 1..NComp : Ev.tags[k] = res.tags[k]
          /\ res.op = "is_enabled" => Ev.en = res.en
          /\ Ev.ne = res.ne
          /\ res.op = "flush" => FlushSeen(Ev, res.ne, res.split) /\ (Ev.fl <=> FlushAnswer(Ev))
          /\ res.op # "flush" => FlushSeen(Ev, 0, FALSE)
          /\ ObsRet(Ev.o, res)
    /\ l' = l + 1 /\ UNCHANGED <<target, hvars>>

\* end of a round: only the installed configuration's components were ever invoked
TTally ==
    /\ IsEv("Tally")
    /\ \A i \in Inits : Ev.used[i] > 0 => slot = i
    /\ UNCHANGED <<vars, target, hvars>>
    /\ l' = l + 1

\* operations through the Init handle: no internal step, the handle is the caller's own
THCall ==
    /\ IsEv("HCall") /\ Ev.i \in Inits
    /\ HandleCall(Ev.i, Ev.op)
    /\ l' = l + 1 /\ UNCHANGED target

\* every component reached is the caller's own (and by HandleIsInstalled the installed
\* one); a flush returns what that emitter's destinations answered and asks each exactly once,
\* a guard does so when it is dropped (also by an unwinding panic); a loser reaches nothing
THRet ==
    /\ IsEv("HRet") /\ Ev.i \in Inits
    /\ hnd[Ev.i].pc = "called"
    /\ ~Ev.pan
    /\ LET res == HResultOf(Ev.i)
       IN /\ \A k \in 1..NComp : Ev.tags[k] = res.tags[k]
          /\ Ev.ne = res.ne
          /\ FlushSeen(Ev, res.flushes, res.split)
          /\ res.op = "h_flush" => (Ev.fl <=> FlushAnswer(Ev))
          /\ HandleRet(Ev.i, res)
    /\ l' = l + 1 /\ UNCHANGED target

\* internal steps
TTrySet == \E i \in Inits : TrySet(i) /\ UNCHANGED <<l, target, hvars>>
TRead == \E o \in Observers : Read(o) /\ UNCHANGED <<l, target, hvars>>

TNext == TReset \/ TInitCall \/ TInitRet \/ TObsCall \/ TObsRet \/ TTally \/ TTrySet \/ TRead
         \/ THCall \/ THRet

TSpec == TInit /\ [][TNext]_tvars

\* obsLog only grows within a round; it is not needed to decide a trace
TView == <<slot, ipc, ikind, iform, ires, opc, oop, oread, ocount, l, target>>

NCalls == Cardinality({k \in 1..Len(Rec) : Rec[k].e \in {"InitCall", "ObsCall"}})

TraceAccepted ==
    LET d == TLCGet("stats").diameter
    IN IF d - 1 = Len(Rec) + NCalls THEN TRUE
       ELSE Print(<<"TRACE-REJECTED", d - 1, Len(Rec) + NCalls>>, FALSE)
=============================================================================
