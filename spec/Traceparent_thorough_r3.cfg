\* C18 thorough (replay 3; sampled-trace filter on): 2 threads, <= 2 spans, <= 3 frames, nesting <= 2, headers sampled / unsampled other trace / invalid (no ids), Frame::current hand-off; every transition replayed.
SPECIFICATION Spec
CONSTANTS
    NThreads = 2
    MaxSpans = 2
    MaxFrames = 3
    MaxTasks = 0
    MaxDepth = 2
    Headers <- MC_Headers3
    InSampled = TRUE
    SnapshotOnPush = TRUE
    WithLazy = FALSE
    WithCurrent = TRUE
    FrameKinds <- MC_NoKinds
    Sampler = TRUE
    CtxForms <- MC_Forms
    Panics = TRUE
    Emit = TRUE
VIEW tview
INVARIANTS SamplerOncePerTrace DecisionGoverns UnsampledSilent SampledConsistent NoTraceNoParent FrameCarries
PROPERTIES Restored
ACTION_CONSTRAINT EmitReplay
CHECK_DEADLOCK FALSE
