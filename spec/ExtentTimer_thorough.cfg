\* X02 Timer thorough: clock readings {absent, epoch, 0.999999999s, 1s, 1.000000001s, 10^9s+5ns} chosen at every reading (forwards,
\* equal, backwards, absent), Timer::start then every sequence of <= 4 of 9 queries (extent / elapsed / to_extent /
\* start_timestamp on the timer, a by_ref() borrow and a copy). Exhaustive.
SPECIFICATION Spec
CONSTANTS
    Instants <- MC_Instants5
    MaxOps = 4
    Emit = TRUE
VIEW view
INVARIANTS TimerRefines TimerExtentIsRange ElapsedDefined
PROPERTY StartStable
ACTION_CONSTRAINT EmitReplay
CHECK_DEADLOCK FALSE
