\* level-A monitor over a recorded trace (env TRACE) of a production run through the default JSON writer (40-byte records).
SPECIFICATION TSpec
CONSTANTS
    EvSize <- MC_EvSize
POSTCONDITION TraceAccepted
CHECK_DEADLOCK FALSE
