------------------------------ MODULE TraceText ------------------------------
(***************************************************************************)
(* X04 - the values of the trace context API and their text forms (crate   *)
(* emit_traceparent): TraceFlags, Traceparent, Tracestate.                 *)
(*                                                                         *)
(* Level A: trace flags are a byte: bit 0 is "sampled", & | ! are the      *)
(* bitwise operations, the text is two lower-case hex digits and any two   *)
(* hex digits parse (Text!FlagsVerdict); a traceparent is (optional trace  *)
(* id, optional span id, flags), valid when both ids are present, its text *)
(* is Text!FormatTp and parses back to the same value; a tracestate is an  *)
(* opaque text: get / Display give it back and equality is that of the     *)
(* texts, however it was constructed.                                      *)
(* Level B: to_hex (nibble table), try_from_hex_slice (decode table with   *)
(* the 0xff sentinel, h1 | h2 == 0xff, (h1 << 4) | h2).                    *)
(***************************************************************************)
EXTENDS Naturals, Sequences, FiniteSets, TLC, Json, Bitwise

CONSTANTS
    FlagTexts,     \* texts given to the flags parser
    PairBytes,     \* bytes combined pairwise with & and |
    TidHex, SidHex, TpFlags,    \* traceparents: every (tr, sp, fl) over 0..Len(TidHex) x 0..Len(SidHex) x TpFlags
    TsTexts,       \* tracestate texts (sequence of strings)
    TsForms,       \* constructor forms
    Emit

T == INSTANCE Text WITH PathAlgo <- "repaired", PathChars <- {}, PathMaxLen <- 0,
                        LevelChars <- {}, LevelMaxLen <- 0, mach <- "none", txt <- <<>>, st <- 0

VARIABLES case, res, phase
vars == <<case, res, phase>>

-----------------------------------------------------------------------------
(* Level A *)
SampledA(b) == b % 2 = 1
NotA(b) == 255 - b
Bit(b, n) == (b \div (2 ^ n)) % 2
RECURSIVE FromBits(_, _)
FromBits(f, n) == IF n < 0 THEN 0 ELSE f[n] * (2 ^ n) + FromBits(f, n - 1)
AndA(a, b) == FromBits([n \in 0..7 |-> IF Bit(a, n) = 1 /\ Bit(b, n) = 1 THEN 1 ELSE 0], 7)
OrA(a, b) == FromBits([n \in 0..7 |-> IF Bit(a, n) = 1 \/ Bit(b, n) = 1 THEN 1 ELSE 0], 7)

Zeros(n) == [i \in 1..n |-> "0"]
TextOfTp(p) == T!FormatTp(IF p.tr = 0 THEN Zeros(32) ELSE TidHex[p.tr],
                          IF p.sp = 0 THEN Zeros(16) ELSE SidHex[p.sp], p.fl)

(* Level B *)
ToHexB(b) == <<T!HexLower[shiftR(b, 4) + 1], T!HexLower[(b & 15) + 1]>>        \* TraceFlags::to_hex
DecodeB(c) == IF c \in T!HexSet THEN T!HexVal(c) ELSE 255                       \* HEX_DECODE_TABLE
\* try_from_hex_slice on a text of one-byte characters (a wider character makes the slice longer than 2)
ParseFlagsB(t) ==
    IF Len(t) # 2 THEN [ok |-> FALSE, val |-> 0]                                \* hex.try_into()
    ELSE LET h1 == DecodeB(t[1])  h2 == DecodeB(t[2])
         IN IF (h1 | h2) = 255 THEN [ok |-> FALSE, val |-> 0]
            ELSE [ok |-> TRUE, val |-> (h1 * 16) | h2]

-----------------------------------------------------------------------------
Tps == {[tr |-> tr, sp |-> sp, fl |-> fl] : tr \in 0..Len(TidHex), sp \in 0..Len(SidHex), fl \in TpFlags}
Cases ==
    {[kind |-> "flags", b |-> b] : b \in 0..255}
    \cup {[kind |-> "flagpair", a |-> a, b |-> b] : a \in PairBytes, b \in PairBytes}
    \cup {[kind |-> "flagtext", text |-> t] : t \in FlagTexts}
    \cup {[kind |-> "tp", p |-> p] : p \in Tps}
    \cup {[kind |-> "ts", i |-> i, j |-> j, f |-> f, g |-> g] :
             i \in 1..Len(TsTexts), j \in 1..Len(TsTexts), f \in TsForms, g \in TsForms}

Init == case \in Cases /\ res = <<>> /\ phase = "ready"

Eval ==
    /\ phase = "ready" /\ phase' = "done" /\ UNCHANGED case
    /\ res' = CASE case.kind = "flags" -> [hex |-> ToHexB(case.b), back |-> ParseFlagsB(ToHexB(case.b))]
                [] case.kind = "flagpair" -> [and |-> case.a & case.b, or |-> case.a | case.b]
                [] case.kind = "flagtext" -> ParseFlagsB(case.text)
                [] OTHER -> <<>>
Next == Eval
Spec == Init /\ [][Next]_vars

-----------------------------------------------------------------------------
Done == phase = "done"
FlagsHexRule == Done /\ case.kind = "flags" =>
    /\ res.hex = T!Hex2(case.b)
    /\ T!FlagsVerdict(res.hex) = T!Accept(case.b)
    /\ res.back = [ok |-> TRUE, val |-> case.b]                    \* format then parse is the identity
FlagsOpsRule == Done /\ case.kind = "flagpair" =>
    /\ res.and = AndA(case.a, case.b) /\ res.or = OrA(case.a, case.b)
    /\ SampledA(res.and) = (SampledA(case.a) /\ SampledA(case.b))
    /\ SampledA(res.or) = (SampledA(case.a) \/ SampledA(case.b))
    /\ SampledA(NotA(case.a)) = ~SampledA(case.a)
FlagsParseRule == Done /\ case.kind = "flagtext" =>
    LET v == T!FlagsVerdict(case.text)
    IN IF v.v = "a" THEN res = [ok |-> TRUE, val |-> v.val] ELSE ~res.ok
TpRoundTrip == case.kind = "tp" =>
    LET v == T!TpVerdict(TextOfTp(case.p))
    IN /\ v.v = "a" /\ v.val.fl = case.p.fl
       /\ v.val.tid = (IF case.p.tr = 0 THEN T!NoneId ELSE TidHex[case.p.tr])
       /\ v.val.sid = (IF case.p.sp = 0 THEN T!NoneId ELSE SidHex[case.p.sp])

CaseJson(c) ==
    CASE c.kind = "flags" -> [kind |-> "flags", b |-> c.b, hex |-> T!Hex2(c.b), sampled |-> SampledA(c.b), not |-> NotA(c.b)]
      [] c.kind = "flagpair" -> [kind |-> "flagpair", a |-> c.a, b |-> c.b, and |-> AndA(c.a, c.b), or |-> OrA(c.a, c.b)]
      [] c.kind = "flagtext" -> [kind |-> "flagtext", text |-> c.text, ok |-> T!FlagsVerdict(c.text).v = "a",
                                 val |-> T!FlagsVerdict(c.text).val]
      [] c.kind = "tp" -> [kind |-> "tp", p |-> c.p, tid |-> IF c.p.tr = 0 THEN <<>> ELSE TidHex[c.p.tr],
                           sid |-> IF c.p.sp = 0 THEN <<>> ELSE SidHex[c.p.sp], text |-> TextOfTp(c.p),
                           valid |-> c.p.tr # 0 /\ c.p.sp # 0, sampled |-> SampledA(c.p.fl)]
      [] c.kind = "ts" -> [kind |-> "ts", x |-> TsTexts[c.i], y |-> TsTexts[c.j], f |-> c.f, g |-> c.g, eq |-> TsTexts[c.i] = TsTexts[c.j]]

EmitReplay == Emit => PrintT(<<"REPLAY", ToJson(CaseJson(case'))>>)
=============================================================================
