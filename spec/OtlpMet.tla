------------------------------- MODULE OtlpMet -------------------------------
(***************************************************************************)
(* X11 - the OTLP emitter's own counters and diagnostics (emitter/otlp:    *)
(* Otlp::metric_source(), internal_metrics.rs, client/http.rs, and what    *)
(* it reports to emit::runtime::internal()).  Delivery and retry policy    *)
(* are C12's (spec/Otlp.tla); here every attempt is followed at the        *)
(* granularity of the counters.                                            *)
(*                                                                         *)
(* A configuration: which signal is configured (logs | traces), the        *)
(* transport (http | grpc), compression.  A scenario: a sequence of        *)
(* single-event batches [kind: plain | span, fails: the collector's        *)
(* answers to the attempts before the one it acknowledges].                *)
(*                                                                         *)
(* Level A (the docs of the counters): an event that matches no configured *)
(* signal while logs are not configured is discarded and counted; every    *)
(* other event is exported.  Each attempt is one request: it is counted as *)
(* sent when the collector answered it (whatever the status) and as failed *)
(* when the transport broke; an answered request counts as a sent batch    *)
(* when the status is a success and as a failed batch otherwise (under the *)
(* transport's name); each attempt compresses once when compression is     *)
(* allowed; a connection is established at first use and again after the   *)
(* transport broke; the channel processes every exported batch once and    *)
(* fails / retries once per failed attempt.  Every attempt is reported     *)
(* once to the internal runtime (failed ones as failures), and nothing the *)
(* emitter says about itself reaches the collector.                        *)
(* Level B (the code): HttpConnection::send (poison / unpoison of the      *)
(* sender, connect when there is none), send_request, the response         *)
(* closures of OtlpTransportBuilder::build.                                *)
(***************************************************************************)
EXTENDS Naturals, Sequences, FiniteSets, TLC, Json

CONSTANTS Configs,      \* [signal, proto, gzip]
          FailKinds(_), \* proto -> answers that make an attempt fail: "s500" | "g14" | "dropa"
          MaxBatches, MaxFails, Emit

VARIABLES cfg, conn, ctr, nb, hist
vars == <<cfg, conn, ctr, nb, hist>>
view == <<cfg, conn, ctr, nb>>

Zero == [event_discarded |-> 0, conn_established |-> 0, request_sent |-> 0, request_failed |-> 0, gzip |-> 0,
         batch_sent |-> 0, batch_failed |-> 0, ch_processed |-> 0, ch_failed |-> 0, ch_retry |-> 0,
         diag_ok |-> 0, diag_failed |-> 0, exported |-> 0]

Matches(signal, kind) == signal = "logs" \/ (signal = "traces" /\ kind = "span")     \* every event can be a log record

-----------------------------------------------------------------------------
(* Level B: one attempt against the collector's answer d ("ack" or a failure) *)
AttemptB(c, alive, gz, d) ==
    LET c1 == IF alive THEN c ELSE [c EXCEPT !.conn_established = @ + 1]                 \* connect() when the sender was poisoned
        c2 == IF gz THEN [c1 EXCEPT !.gzip = @ + 1] ELSE c1
    IN IF d = "dropa"
       THEN [ctr |-> [c2 EXCEPT !.request_failed = @ + 1, !.ch_failed = @ + 1, !.ch_retry = @ + 1, !.diag_failed = @ + 1],
             alive |-> FALSE]                                                            \* the sender is not put back
       ELSE LET c3 == [c2 EXCEPT !.request_sent = @ + 1] IN                              \* unpoison(sender), then the response closure
            IF d = "ack"
            THEN [ctr |-> [c3 EXCEPT !.batch_sent = @ + 1, !.ch_processed = @ + 1, !.diag_ok = @ + 1, !.exported = @ + 1], alive |-> TRUE]
            ELSE [ctr |-> [c3 EXCEPT !.batch_failed = @ + 1, !.ch_failed = @ + 1, !.ch_retry = @ + 1, !.diag_failed = @ + 1], alive |-> TRUE]

RECURSIVE Attempts(_, _, _, _)
Attempts(c, alive, gz, ds) ==
    IF ds = <<>> THEN [ctr |-> c, alive |-> alive]
    ELSE LET r == AttemptB(c, alive, gz, Head(ds)) IN Attempts(r.ctr, r.alive, gz, Tail(ds))

Init == cfg \in Configs /\ conn = FALSE /\ ctr = Zero /\ nb = 0 /\ hist = <<>>

Batch(kind, fails) ==
    /\ nb < MaxBatches
    /\ nb' = nb + 1
    /\ UNCHANGED cfg
    /\ IF Matches(cfg.signal, kind)
       THEN LET r == Attempts(ctr, conn, cfg.gzip, fails \o <<"ack">>)
            IN /\ ctr' = r.ctr /\ conn' = r.alive
               /\ hist' = Append(hist, [kind |-> kind, fails |-> fails, discarded |-> FALSE, ctr |-> r.ctr])
       ELSE /\ ctr' = [ctr EXCEPT !.event_discarded = @ + 1] /\ UNCHANGED conn
            /\ hist' = Append(hist, [kind |-> kind, fails |-> <<>>, discarded |-> TRUE, ctr |-> ctr'])

FailSeqs == UNION {[1..k -> FailKinds(cfg.proto)] : k \in 0..MaxFails}
Next == \E kind \in {"plain", "span"}, fs \in FailSeqs : (Matches(cfg.signal, kind) \/ fs = <<>>) /\ Batch(kind, fs)
Spec == Init /\ [][Next]_vars

-----------------------------------------------------------------------------
(* Level A: what the scenario implies *)
Sum(F(_)) == LET S[i \in 0..Len(hist)] == IF i = 0 THEN 0 ELSE S[i - 1] + F(hist[i]) IN S[Len(hist)]
CountIn(s, x) == Cardinality({i \in 1..Len(s) : s[i] = x})
NExported == Sum(LAMBDA h : IF h.discarded THEN 0 ELSE 1)
NDiscarded == Sum(LAMBDA h : IF h.discarded THEN 1 ELSE 0)
NFails == Sum(LAMBDA h : Len(h.fails))
NDrops == Sum(LAMBDA h : CountIn(h.fails, "dropa"))
NAttempts == NExported + NFails

EveryEventAccounted == ctr.event_discarded = NDiscarded /\ ctr.exported = NExported /\ ctr.ch_processed = NExported
\* an attempt is a request: answered (sent) or broken (failed)
RequestsAccounted == ctr.request_sent + ctr.request_failed = NAttempts /\ ctr.request_failed = NDrops
\* an answered request is a sent batch or a failed batch
BatchesAccounted == ctr.batch_sent + ctr.batch_failed = ctr.request_sent /\ ctr.batch_sent = NExported
\* the channel fails and retries once per failed attempt
ChannelAccounted == ctr.ch_failed = NFails /\ ctr.ch_retry = NFails
\* compression once per attempt when allowed
GzipAccounted == ctr.gzip = (IF cfg.gzip THEN NAttempts ELSE 0)
\* a connection at first use and after every break that is followed by another attempt (it always is: the batch is retried)
ConnectionsAccounted == ctr.conn_established = (IF NAttempts = 0 THEN 0 ELSE 1 + NDrops)
\* one report to the internal runtime per attempt
DiagnosticsAccounted == ctr.diag_ok = NExported /\ ctr.diag_failed = NFails

EmitReplay == Emit => PrintT(<<"REPLAY", ToJson([cfg |-> cfg', steps |-> hist'])>>)
=============================================================================
