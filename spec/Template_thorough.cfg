\* C16 thorough (1 of 3; the quick configuration is run as well): fragments of <= 1 character over
\* {a, é, 😀} (1-, 2-, 4-byte), hole labels {"", x, é}, <= 4 parts: 2801 templates, all 7 845 601 ordered pairs.
SPECIFICATION Spec
CONSTANTS
    Chars = {"a", "é", "😀"}
    CharBytes <- MC_CharBytes
    Labels = {"", "x", "é"}
    MaxFragLen = 1
    MaxParts = 4
    Algo = "repaired"
INVARIANTS CursorRefinesEqual CursorsInRange RenderIndependentOfSplit EquivalenceInv
PROPERTY Progress
CHECK_DEADLOCK FALSE
