\* C16 thorough: fragments of <= 2 characters over {a, é, 😀} (1-, 2-, 4-byte), hole labels {"", x, é},
\* <= 3 parts: 4369 templates, all 19 088 161 ordered pairs as initial states; repaired cursor algorithm.
SPECIFICATION Spec
CONSTANTS
    Chars = {"a", "é", "😀"}
    CharBytes <- MC_CharBytes
    Labels = {"", "x", "é"}
    MaxFragLen = 2
    MaxParts = 3
    Algo = "repaired"
INVARIANTS CursorRefinesEqual CursorsInRange RenderIndependentOfSplit EquivalenceInv
PROPERTY Progress
CHECK_DEADLOCK FALSE
