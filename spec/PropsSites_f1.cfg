\* C02 design-level F1: the macro lookup as found (binary search by final key over an array sorted by identifier);
\* GetIsFirst is expected to be violated.
SPECIFICATION Spec
CONSTANTS
    KeyOrder <- MC_KeyOrder
    IdOrder <- MC_IdOrder
    NModes <- MC_NModes
    Seeds <- MC_Seeds
    Rights <- MC_Rights
    Wraps <- MC_Wraps
    SpanPrefix <- MC_SpanPrefix
    MetricPrefix <- MC_MetricPrefix
    Which = "sites_quick"
    GrowLeaves <- MC_GrowLeaves
    MaxGrow = 0
    MacroGet = "bsearch"
    Emit = FALSE
INVARIANTS GetIsFirst DedupOnceFirst UniqueClaimSound BreakStops EnumIsSpec SerIsEnum
ACTION_CONSTRAINT EmitReplay
CHECK_DEADLOCK FALSE
