\* C12 level A monitor: decides recorded traces; StreakK = 7 consecutive failures of one signal
\* (>= 37.7 s of unscaled back-off, 1.9 s when scaled by 1/20) by which the healthy signals must have been delivered.
\* Capacity = 10000: events a signal's channel holds before it truncates (emit_batcher::bounded(10_000) in OtlpBuilder::spawn).
SPECIFICATION Spec
CONSTANT StreakK = 7
CONSTANT Capacity = 10000
POSTCONDITION TraceAccepted
CHECK_DEADLOCK FALSE
