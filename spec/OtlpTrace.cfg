\* C12 level A monitor: decides recorded traces; StreakK = 5 consecutive failures of one signal
\* (>= 17.7 s of unscaled back-off) by which the healthy signals must have been delivered.
SPECIFICATION Spec
CONSTANT StreakK = 5
POSTCONDITION TraceAccepted
CHECK_DEADLOCK FALSE
