\* X08 thorough: Str: 20 constructors x every chain of <= 3 of 7 derivations (by_ref, From<&Str>, ToStr, clone, to_owned, to_shared, through a Value)
\* x 2 texts; Value: 19 constructors x every chain of <= 3 of 8 derivations x 2 texts ("42", "a b"); equality / order / hash: 20 x 20 constructors
\* x 2 x 2 texts. Exhaustive.
SPECIFICATION Spec
CONSTANTS
    StrDepth = 3
    ValDepth = 3
    Texts = {"42", "a b"}
    Emit = TRUE
INVARIANTS StrRefines StaticRule OwnedIsOwned ValClassKept
ACTION_CONSTRAINT EmitReplay
CHECK_DEADLOCK FALSE
