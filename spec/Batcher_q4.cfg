\* Batcher q4: s1 = send,send,send; s2 = raw when_empty callback; f1 = async tokio flush (no timeout); f2 = flush callback that blocks the receiver until released; Cap 1, MaxRetry 10 (hard-coded by bounded()), <= 1 processor faults, TRUE remainders, receiver kill FALSE; idle spinning cut at 3 ms. Exhaustive.
SPECIFICATION Spec
CONSTANTS
    SenderOps <- Q4_SenderOps
    FlusherOps <- Q4_FlusherOps
    Cap = 1
    MaxRetry = 10
    MaxFail = 1
    AnyRemainder = FALSE
    NonEmptyRem = FALSE
    OutcomeSet = {"ok", "fail", "retry", "panic", "panicFut"}
    AllowKill = FALSE
    MaxIdleDelay = 3
    Emit = TRUE
VIEW view
CONSTRAINT IdleBound
INVARIANTS TypeOK Bounded Partition StatusConsistent TruncCounted FlushMeansDone FlushRetTruthful RetryBounded BackoffBounded CallbackOnce SendNeverWaits
ACTION_CONSTRAINT EmitReplay
CHECK_DEADLOCK FALSE
