-------------------------------- MODULE Text --------------------------------
(***************************************************************************)
(* C15 - text forms round-trip and every parser is total.                  *)
(*                                                                         *)
(* A text is a sequence of one-character strings.  Each grammar is an      *)
(* acceptor with a value function; a verdict is a record                   *)
(*    [v |-> "a", val |-> value]    accept, with this value                *)
(*    [v |-> "r", val |-> 0]        reject (the shape departs)             *)
(*    [v |-> "d", val |-> 0]        don't-care: the statement is silent    *)
(*                                  (well-shaped, field value out of range,*)
(*                                  RFC 3339's optional lower-case t/z and *)
(*                                  space separator, upper-case hex in a   *)
(*                                  traceparent); only a panic is wrong    *)
(*                                                                         *)
(* Level B: the two hand-written automata (core/src/path.rs                *)
(* `is_valid_path`, src/level.rs `from_str`/`parse`) transcribed as state  *)
(* machines; AutomataRefineGrammar: they decide exactly the grammar for    *)
(* every string of the bounded domain (strings are the initial states).    *)
(***************************************************************************)
EXTENDS Naturals, Sequences, FiniteSets, TLC, LevelParse

CONSTANTS
    PathAlgo,       \* "current" | "repaired"  (F11)
    PathChars,      \* alphabet of the path automaton check
    PathMaxLen,
    LevelChars,     \* alphabet of the level automaton check
    LevelMaxLen

VARIABLES mach, txt, st
vars == <<mach, txt, st>>

-----------------------------------------------------------------------------
(* characters *)
Digits == <<"0", "1", "2", "3", "4", "5", "6", "7", "8", "9">>
DigitSet == {Digits[i] : i \in 1..10}
DVal(c) == (CHOOSE i \in 1..10 : Digits[i] = c) - 1
D(n) == Digits[n + 1]
HexLower == <<"0", "1", "2", "3", "4", "5", "6", "7", "8", "9", "a", "b", "c", "d", "e", "f">>
HexUpper == <<"0", "1", "2", "3", "4", "5", "6", "7", "8", "9", "A", "B", "C", "D", "E", "F">>
HexSet == {HexLower[i] : i \in 1..16} \cup {HexUpper[i] : i \in 1..16}
HexVal(c) == (CHOOSE i \in 1..16 : HexLower[i] = c \/ HexUpper[i] = c) - 1
LowerHex(c) == HexLower[HexVal(c) + 1]
IsUpperHex(c) == c \in {"A", "B", "C", "D", "E", "F"}
Pow10 == <<1, 10, 100, 1000, 10000, 100000, 1000000, 10000000, 100000000, 1000000000>>  \* Pow10[k+1] = 10^k

Accept(val) == [v |-> "a", val |-> val]
Reject == [v |-> "r", val |-> 0]
DontCare == [v |-> "d", val |-> 0]

-----------------------------------------------------------------------------
(* civil calendar (Hinnant's closed forms; days since 1970-01-01; all values < 2^31) *)
Leap(y) == (y % 4 = 0 /\ y % 100 # 0) \/ y % 400 = 0
DaysInMonth(y, m) ==
    IF m = 2 THEN (IF Leap(y) THEN 29 ELSE 28)
    ELSE IF m \in {4, 6, 9, 11} THEN 30 ELSE 31

DaysFromCivil(y, m, d) ==
    LET yy == IF m <= 2 THEN y - 1 ELSE y
        era == yy \div 400
        yoe == yy - era * 400
        mp == IF m > 2 THEN m - 3 ELSE m + 9
        doy == (153 * mp + 2) \div 5 + d - 1
        doe == yoe * 365 + yoe \div 4 - yoe \div 100 + doy
    IN era * 146097 + doe - 719468

CivilFromDays(z0) ==
    LET z == z0 + 719468
        era == z \div 146097
        doe == z - era * 146097
        yoe == (doe - doe \div 1460 + doe \div 36524 - doe \div 146096) \div 365
        y == yoe + era * 400
        doy == doe - (365 * yoe + yoe \div 4 - yoe \div 100)
        mp == (5 * doy + 2) \div 153
        d == doy - (153 * mp + 2) \div 5 + 1
        m == IF mp < 10 THEN mp + 3 ELSE mp - 9
    IN [y |-> IF m <= 2 THEN y + 1 ELSE y, m |-> m, d |-> d]

MaxDay == 2932896       \* 9999-12-31

-----------------------------------------------------------------------------
(* RFC 3339 UTC timestamps:  dddd-dd-ddTdd:dd:dd[.d{1,9}]Z *)
IsD(t, i) == t[i] \in DigitSet

TsShape(t) ==
    /\ Len(t) = 20 \/ Len(t) \in 22..30
    /\ t[Len(t)] = "Z"
    /\ \A i \in {1, 2, 3, 4, 6, 7, 9, 10, 12, 13, 15, 16, 18, 19} : IsD(t, i)
    /\ t[5] = "-" /\ t[8] = "-" /\ t[11] = "T" /\ t[14] = ":" /\ t[17] = ":"
    /\ Len(t) > 20 => (t[20] = "." /\ \A i \in 21..(Len(t) - 1) : IsD(t, i))

\* RFC 3339 allows t, z and (by note) a space for T: the statement does not say
Lenient(t) ==
    [i \in 1..Len(t) |->
        IF i = 11 /\ t[i] \in {"t", " "} THEN "T"
        ELSE IF i = Len(t) /\ t[i] = "z" THEN "Z" ELSE t[i]]

N2(t, i) == DVal(t[i]) * 10 + DVal(t[i + 1])

RECURSIVE FracVal(_, _)
\* digits t[i..Len-1] of the fraction, digit at position i weighs 10^(9-(i-20))
FracVal(t, i) == IF i >= Len(t) THEN 0 ELSE DVal(t[i]) * Pow10[(9 - (i - 20)) + 1] + FracVal(t, i + 1)

TsFields(t) ==
    [y |-> DVal(t[1]) * 1000 + DVal(t[2]) * 100 + N2(t, 3), mo |-> N2(t, 6), d |-> N2(t, 9),
     h |-> N2(t, 12), mi |-> N2(t, 15), s |-> N2(t, 18),
     n |-> IF Len(t) = 20 THEN 0 ELSE FracVal(t, 21)]

TsInRange(f) ==
    /\ f.y >= 1970
    /\ f.mo \in 1..12
    /\ f.d >= 1 /\ f.d <= DaysInMonth(f.y, f.mo)
    /\ f.h <= 23 /\ f.mi <= 59 /\ f.s <= 59

TsValue(f) == [d |-> DaysFromCivil(f.y, f.mo, f.d), s |-> f.h * 3600 + f.mi * 60 + f.s, n |-> f.n]

TsVerdict(t) ==
    IF TsShape(t) THEN
        LET f == TsFields(t) IN IF TsInRange(f) THEN Accept(TsValue(f)) ELSE DontCare
    ELSE IF Len(t) >= 11 /\ TsShape(Lenient(t)) THEN DontCare
    ELSE Reject

Pad2(n) == <<D(n \div 10), D(n % 10)>>
Pad4(n) == <<D(n \div 1000), D((n \div 100) % 10), D((n \div 10) % 10), D(n % 10)>>
MinN(x, y) == IF x < y THEN x ELSE y

\* Display with precision p (no precision = 9; more than 9 = 9): digits are truncated
FormatTs(v, p) ==
    LET c == CivilFromDays(v.d)
        pp == MinN(p, 9)
    IN Pad4(c.y) \o <<"-">> \o Pad2(c.m) \o <<"-">> \o Pad2(c.d) \o <<"T">>
       \o Pad2(v.s \div 3600) \o <<":">> \o Pad2((v.s \div 60) % 60) \o <<":">> \o Pad2(v.s % 60)
       \o (IF pp = 0 THEN <<>> ELSE <<".">> \o [i \in 1..pp |-> D((v.n \div Pow10[(9 - i) + 1]) % 10)])
       \o <<"Z">>

TruncTs(v, p) == LET q == Pow10[(9 - MinN(p, 9)) + 1] IN [v EXCEPT !.n = (v.n \div q) * q]

PartsOf(v) ==
    LET c == CivilFromDays(v.d) IN
    [y |-> c.y, mo |-> c.m, d |-> c.d, h |-> v.s \div 3600, mi |-> (v.s \div 60) % 60, s |-> v.s % 60, n |-> v.n]

-----------------------------------------------------------------------------
(* ids, flags, traceparent *)
AllHex(t, from, to) == \A i \in from..to : t[i] \in HexSet
AllZero(t, from, to) == \A i \in from..to : t[i] = "0"
LowerSub(t, from, to) == [i \in 1..(to - from + 1) |-> LowerHex(t[from + i - 1])]

IdVerdict(t, n) ==
    IF Len(t) = n /\ AllHex(t, 1, n) /\ ~AllZero(t, 1, n) THEN Accept(LowerSub(t, 1, n)) ELSE Reject

FlagsVerdict(t) ==
    IF Len(t) = 2 /\ AllHex(t, 1, 2) THEN Accept(HexVal(t[1]) * 16 + HexVal(t[2])) ELSE Reject

Hex2(b) == <<HexLower[(b \div 16) + 1], HexLower[(b % 16) + 1]>>

\* 00-<32 hex>-<16 hex>-<2 hex>; an all-zero id is "no id" (Display writes zeros for it)
TpShape(t) ==
    /\ Len(t) = 55
    /\ t[1] = "0" /\ t[2] = "0" /\ t[3] = "-" /\ t[36] = "-" /\ t[53] = "-"
    /\ AllHex(t, 4, 35) /\ AllHex(t, 37, 52) /\ AllHex(t, 54, 55)

NoneId == <<"n", "o", "n", "e">>
TpVerdict(t) ==
    IF ~TpShape(t) THEN Reject
    ELSE IF \E i \in 1..55 : IsUpperHex(t[i]) THEN DontCare     \* W3C: lower case only
    ELSE Accept([tid |-> IF AllZero(t, 4, 35) THEN NoneId ELSE LowerSub(t, 4, 35),
                 sid |-> IF AllZero(t, 37, 52) THEN NoneId ELSE LowerSub(t, 37, 52),
                 fl |-> HexVal(t[54]) * 16 + HexVal(t[55])])

FormatTp(tid, sid, fl) == <<"0", "0", "-">> \o tid \o <<"-">> \o sid \o <<"-">> \o Hex2(fl)

-----------------------------------------------------------------------------
(* level (LevelParse.tla), kind *)
LevelText == << <<"d", "e", "b", "u", "g">>, <<"i", "n", "f", "o">>, <<"w", "a", "r", "n">>,
                <<"e", "r", "r", "o", "r">> >>

\* characters LevelParse.tla classifies (anything else: the statement's grammar is not modelled)
\* the non-ASCII representatives (none is white space): 2-byte é ° ± µ ñ ö ø ÿ º ® ڰ, 3-byte € ⰱ, 4-byte 😀.
\* The Latin-1 ones are chosen for their bytes: with the high bit dropped, C2/C3 B0..B9 alias
\* B/C and the digits, BA aliases `:`, AE aliases `.`, DA aliases Z.
Wide2 == {"é", "°", "±", "µ", "ñ", "ö", "ø", "ÿ", "º", "®", "ڰ"}
Wide3 == {"€", "ⰱ"}
Wide4 == {"😀"}
Wide == Wide2 \cup Wide3 \cup Wide4
ByteW(c) == IF c \in Wide2 THEN 2 ELSE IF c \in Wide3 THEN 3 ELSE IF c \in Wide4 THEN 4 ELSE 1
WideExtra == {"ò", "ó", "ô", "õ", "÷"}      \* only inside MixedWide texts (ò ó ô õ letters, ÷ a symbol)
LevelKnown == LowerSet \cup UpperSet \cup PrintableNonLetter \cup Whitespace \cup Wide \cup WideExtra
LevelVerdict(t) ==
    IF \E i \in 1..Len(t) : t[i] \notin LevelKnown THEN DontCare
    ELSE LET l == ParseLevel(t) IN IF l = 0 THEN Reject ELSE Accept(l)

UpSeq(t) == [i \in 1..Len(t) |-> Up(t[i])]
KindText == << <<"s", "p", "a", "n">>, <<"m", "e", "t", "r", "i", "c">> >>
KindVerdict(t) ==
    LET u == UpSeq(Trim(t)) IN
    IF u = UpSeq(KindText[1]) THEN Accept(1)
    ELSE IF u = UpSeq(KindText[2]) THEN Accept(2)
    ELSE Reject

-----------------------------------------------------------------------------
(* paths: ident (:: ident)*, ident = (XID_Start | _) XID_Continue*  *)
XidStart == LowerSet \cup UpperSet \cup {"é", "µ", "ñ", "ö", "ø", "ÿ", "º", "ڰ", "ⰱ", "ò", "ó", "ô", "õ"}    \* letters
IdentStart == XidStart \cup {"_"}
IdentChar == IdentStart \cup DigitSet

IsPath(t) ==
    /\ t # <<>>
    /\ \A i \in 1..Len(t) :
        IF t[i] = ":" THEN
            \* every maximal run of colons has length exactly 2, and none at either end
            /\ i > 1 /\ i < Len(t)
            /\ \/ (t[i - 1] # ":" /\ t[i + 1] = ":" /\ i + 1 < Len(t) /\ t[i + 2] # ":")
               \/ (t[i - 1] = ":" /\ t[i + 1] # ":" /\ i > 2 /\ t[i - 2] # ":")
        ELSE /\ t[i] \in IdentChar
             /\ (i = 1 \/ t[i - 1] = ":") => t[i] \in IdentStart

\* a segment made of underscores only is not a Rust identifier: the statement does not say
UnderscoreSegment(t) ==
    \E i \in 1..Len(t), j \in 1..Len(t) :
        /\ i <= j /\ (i = 1 \/ t[i - 1] = ":") /\ (j = Len(t) \/ t[j + 1] = ":")
        /\ \A k \in i..j : t[k] = "_"
PathVerdict(t) == IF ~IsPath(t) THEN Reject ELSE IF UnderscoreSegment(t) THEN DontCare ELSE Accept(1)

-----------------------------------------------------------------------------
(* Forms and channels.  Level A does not depend on them: a text has one verdict whatever
   form carries it to the parser, and a typed value denotes one text whatever channel takes
   it out.  (The harness binds each name to real code, refuses a name it does not know and
   requires every name it knows.) *)
\* how a text arrives as a property value that is being cast
CastForms == {
    "str",                \* Value::from(&str)
    "string",             \* Value::from(&String)
    "from_any-string",    \* Value::from_any(&String)
    "cow",                \* Value::from(&Cow<str>)
    "option",             \* Value::from(Some(&str))
    "display",            \* Value::from_display, one write
    "display-chars",      \* Value::from_display, one write per character
    "dyn-display",        \* ToValue for dyn Display
    "serde",              \* Value::from_serde(&String)
    "sval",               \* Value::from_sval(&String)
    "owned",              \* Value::to_owned().by_ref()
    "shared",             \* Value::to_shared().by_ref()
    "props-pull"}         \* Props::pull on a (key, text) pair
\* ... except where the statement's cast clause is not met by the code and this is reported as a
\* finding instead of being asserted: TraceId / SpanId::from_value read the value through its Display,
\* and a text (or an id) captured through serde or sval displays quoted, so the cast fails although
\* the same capture casts to a Timestamp, Level or Kind.  These (parser, form) pairs are don't-care;
\* the harness counts what it observes (evidence: coverage.findings_observed).
CastDontCare == {<<"tid", "serde">>, <<"tid", "sval">>, <<"sid", "serde">>, <<"sid", "sval">>}
VerdictVia(form, parser, verdict) == IF <<parser, form>> \in CastDontCare THEN DontCare ELSE verdict
\* how the text of a typed value (timestamp, id, level, kind, path) gets out
ValueChannels == {
    "display",            \* Display / to_string
    "to_value",           \* ToValue, then Display of the Value
    "to_value-serde",     \* ToValue, then serde of the Value
    "to_value-sval",      \* ToValue, then sval of the Value
    "to_value-owned",     \* ToValue, to_owned, Display
    "serde-json",         \* serde::Serialize of the typed value through serde_json::to_string
    "serde-collect",      \* ... through serde_json::to_value
    "sval",               \* sval::Value of the typed value into a collecting Stream
    "sval-json",          \* ... through sval_json
    "sval-ref"}           \* sval_ref::ValueRef into a collecting Stream (the types that have it: Path)
TextVia(ch, text) == text
\* and back: a typed value captured through these forms casts to the same typed value
\* (Path has no "display" form: its cast takes text values only, it does not parse)
TypedCastForms == {"from_any", "serde", "sval", "owned", "display"}

\* how a trace-flags value comes about: level A is the byte b whatever the form (the operators are
\* the bitwise ones on that byte); FlagOperands(f, b) are the operand bytes the form is applied to
FlagForms == {"from_u8", "const", "not", "or", "and"}
FlagOperands(f, b) ==
    LET hi == (b \div 16) * 16   lo == b % 16 IN
    IF f = "not" THEN <<255 - b>>                    \* !x
    ELSE IF f = "or" THEN <<b - (b % 4), b % 64>>       \* x | y  (b without its 2 low bits, b without its 2 high bits)
    ELSE IF f = "and" THEN <<hi + 15, 240 + lo>>     \* x & y
    ELSE <<b>>                                       \* from_u8(b); const: EMPTY / SAMPLED when b is 0 / 1
\* ... and a rejection is a value as well ("returns a value or an error"): the error of every
\* Result-returning entry point of every parser gets out through these channels, each of which gives a
\* message - total (never panics) and not empty -, and one message whatever the channel (Debug excepted:
\* it shows the structure; the statement does not fix the wording of either).
ErrorChannels == {
    "display",            \* Display / format!("{}")
    "to_string",          \* ToString
    "display-padded",     \* Display under width / fill flags (the message is inside)
    "dyn-error",          \* Display through &dyn std::error::Error
    "to_value",           \* ToValue for dyn Error, then Display of the Value
    "capture_error",      \* Value::capture_error, then Display
    "debug"}              \* Debug
SameMessageChannels == ErrorChannels \ {"debug", "display-padded"}
\* what an error channel must give for a message msg (a non-empty text): that message; "contains" it; any non-empty text
ErrorVia(ch) == IF ch \in SameMessageChannels THEN "same" ELSE IF ch = "display-padded" THEN "contains" ELSE "nonempty"

-----------------------------------------------------------------------------
(* all verdicts of one text *)
Verdicts(t) ==
    [t |-> t, ts |-> TsVerdict(t), tid |-> IdVerdict(t, 32), sid |-> IdVerdict(t, 16),
     fl |-> FlagsVerdict(t), tp |-> TpVerdict(t), lvl |-> LevelVerdict(t), kind |-> KindVerdict(t),
     path |-> PathVerdict(t)]

(* near-misses of a well-formed text *)
Repl(t, i, c) == [t EXCEPT ![i] = c]
Del(t, i) == SubSeq(t, 1, i - 1) \o SubSeq(t, i + 1, Len(t))
Ins(t, i, c) == SubSeq(t, 1, i) \o <<c>> \o SubSeq(t, i + 1, Len(t))
Swap(t, i) == [t EXCEPT ![i] = t[i + 1], ![i + 1] = t[i]]
\* byte-length-preserving substitutions in an ASCII text: ByteW(c) adjacent characters
\* are replaced by the one character c (the length tests of the byte-oriented parsers still pass)
Squeeze(t, i, c) == SubSeq(t, 1, i - 1) \o <<c>> \o SubSeq(t, i + ByteW(c), Len(t))
Fill(n, c) == [k \in 1..(n \div ByteW(c)) |-> c]            \* n bytes of c (n divisible by ByteW(c))
RangeWide(t, a, b, c) == SubSeq(t, 1, a - 1) \o Fill(b - a + 1, c) \o SubSeq(t, b + 1, Len(t))
\* the fields of a fixed-width text: maximal runs of hex digits (the digits of a timestamp,
\* version / ids / flags of a traceparent, a whole id)
FieldRuns(t) ==
    {r \in (1..Len(t)) \X (1..Len(t)) :
        /\ r[1] <= r[2] /\ \A k \in r[1]..r[2] : t[k] \in HexSet
        /\ (r[1] = 1 \/ t[r[1] - 1] \notin HexSet) /\ (r[2] = Len(t) \/ t[r[2] + 1] \notin HexSet)}
Wide2Seq == <<"ñ", "ò", "ó", "ô", "õ", "ö", "÷", "ø", "°", "±", "µ", "ÿ", "é", "º", "®", "ڰ">>   \* all 2-byte
\* n bytes of varying 2-byte characters (and one 3-byte character when n is odd)
MixedWide(n) ==
    LET m == IF n % 2 = 1 THEN n - 3 ELSE n IN
    [k \in 1..(m \div 2) |-> Wide2Seq[((k - 1) % Len(Wide2Seq)) + 1]] \o (IF n % 2 = 1 THEN <<"ⰱ">> ELSE <<>>)
\* every text below has exactly the byte length of the (ASCII) text t and must be rejected
WideMutants(t, W) ==
    LET L == Len(t)
        ranges == FieldRuns(t) \cup {<<1, b>> : b \in 1..L} \cup {<<a, L>> : a \in 1..L}
    IN {Squeeze(t, p[1], p[2]) : p \in {q \in (1..L) \X W : q[1] + ByteW(q[2]) - 1 <= L}}
       \cup {RangeWide(t, p[1][1], p[1][2], p[2]) :
                p \in {q \in ranges \X W : (q[1][2] - q[1][1] + 1) % ByteW(q[2]) = 0}}
       \cup (IF L >= 3 THEN {MixedWide(L)} ELSE {})
Mutants(t, A) ==
    {t} \cup {Repl(t, i, c) : i \in 1..Len(t), c \in A} \cup {Del(t, i) : i \in 1..Len(t)}
        \cup {Ins(t, i, c) : i \in 0..Len(t), c \in A} \cup {Swap(t, i) : i \in 1..(Len(t) - 1)}
        \cup {SubSeq(t, 1, n) : n \in 0..Len(t)}

-----------------------------------------------------------------------------
(* Level B: is_valid_path *)
PathS0 == [done |-> FALSE, i |-> 1, sep |-> IF PathAlgo = "repaired" THEN 2 ELSE 0, res |-> FALSE]
PathEnd(s, r) == [s EXCEPT !.done = TRUE, !.res = r]

PathStep(t, s) ==
    IF s.i = 1 /\ t = <<>> THEN PathEnd(s, FALSE)               \* path.len() == 0
    ELSE IF s.i > Len(t) THEN PathEnd(s, s.sep = 0)             \* if separators != 0 return false
    ELSE LET c == t[s.i]
             adv(sep) == [s EXCEPT !.i = @ + 1, !.sep = sep]
         IN
         IF s.i = 1 /\ c = ":" THEN PathEnd(s, FALSE)           \* path.starts_with(':')
         ELSE IF c = ":" /\ s.sep = 0 THEN adv(1)
         ELSE IF c = ":" /\ s.sep = 1 THEN adv(2)
         ELSE IF s.sep % 2 = 0 /\ (c \in XidStart \/ (PathAlgo = "repaired" /\ c = "_")) THEN adv(0)
         ELSE IF (PathAlgo = "repaired" => s.sep = 0) /\ c \in IdentChar THEN adv(s.sep)
         ELSE PathEnd(s, FALSE)

(* Level B: `impl FromStr for Level` + `parse` *)
LvlS0 == [done |-> FALSE, ph |-> "dispatch", w |-> <<>>, w2 |-> <<>>, lv |-> 0, i |-> 1, e |-> 1, res |-> 0]
LvlEnd(s, r) == [s EXCEPT !.done = TRUE, !.res = r]
LvlTry(s, w, w2, lv) == [s EXCEPT !.ph = "word", !.w = w, !.w2 = w2, !.lv = lv, !.i = 2, !.e = 2]
\* a word failed: or_else the second word if there is one
LvlFail(s) == IF s.w2 # <<>> THEN LvlTry(s, s.w2, <<>>, s.lv) ELSE LvlEnd(s, 0)

LvlStep(t0, s) ==
    LET t == Trim(t0) IN
    IF s.ph = "dispatch" THEN
        IF t = <<>> THEN LvlEnd(s, 0)
        ELSE IF t[1] \in {"I", "i"} THEN LvlTry(s, INFORMATION, <<>>, 2)
        ELSE IF t[1] \in {"D", "d"} THEN LvlTry(s, DEBUG, DBG, 1)
        ELSE IF t[1] \in {"E", "e"} THEN LvlTry(s, ERROR, <<>>, 4)
        ELSE IF t[1] \in {"W", "w"} THEN LvlTry(s, WARNING, WRN, 3)
        ELSE LvlEnd(s, 0)
    ELSE \* while let Some(b) = input.get(0)
        IF s.i > Len(t) THEN LvlEnd(s, s.lv)
        ELSE LET c == t[s.i] IN
             IF IsLetter(c) THEN
                 IF s.e > Len(s.w) THEN LvlFail(s)
                 ELSE IF Up(c) # s.w[s.e] THEN LvlFail(s)
                 ELSE [s EXCEPT !.i = @ + 1, !.e = @ + 1]
             ELSE IF c \in PrintableNonLetter THEN LvlEnd(s, s.lv)      \* ascii, not control: break
             ELSE LvlFail(s)                                            \* control / non-ascii

Init ==
    \/ mach = "path" /\ (\E k \in 0..PathMaxLen : txt \in [1..k -> PathChars]) /\ st = PathS0
    \/ mach = "level" /\ (\E k \in 0..LevelMaxLen : txt \in [1..k -> LevelChars]) /\ st = LvlS0

PathAct == mach = "path" /\ ~st.done /\ st' = PathStep(txt, st) /\ UNCHANGED <<mach, txt>>
LevelAct == mach = "level" /\ ~st.done /\ st' = LvlStep(txt, st) /\ UNCHANGED <<mach, txt>>
Next == PathAct \/ LevelAct
Spec == Init /\ [][Next]_vars

AutomataRefineGrammar ==
    /\ (mach = "path" /\ st.done) => st.res = IsPath(txt)
    /\ (mach = "level" /\ st.done) => st.res = ParseLevel(txt)

\* bounded running time: the cursors only move forward (level: at most two passes)
AutomataBounded ==
    /\ mach = "path" => st.i <= Len(txt) + 1
    /\ mach = "level" => st.i <= Len(txt) + 1
=============================================================================
