\* C05 as found (defect F2; with_completion as in the unrepaired code), otherwise as quick: every sequence (any length) of the 11 guard operations over 1 alternative
\* module / name / property value; default completions with level / panic level each absent or
\* present: new{rec1,dflt,dfltl,dfltp,dfltL} with{rec2,dfltl} complete_with{rec3,dfltp,ok,err} + completion forms {recRef,recSS,fromE,empty};
\* macro result completions with ok_lvl / err_lvl / err-mapper each absent or present
\* {ok,okD,err,errD,errM,errMD}; 4 clock scripts (forwards, backwards, no reading at start / at
\* completion), both filter verdicts, forms none/plain/setup/result{,_o,_e}/resultM{,_m}/guard/
\* newspan, operations inside and after the frame; terminals also while the thread is unwinding.
SPECIFICATION Spec
CONSTANTS
    Mdls = {"m1"}
    Names = {"n1"}
    PropVals = {1}
    NewComps = {"rec1", "dflt", "dfltl", "dfltp", "dfltL"}
    WithComps = {"rec2", "dfltl"}
    CwComps = {"rec3", "dfltp", "ok", "okD", "err", "errD", "errM", "errMD", "recRef", "recSS", "fromE", "empty"}
    Scripts <- MC_ScriptsQuick
    Forms = {"none", "plain", "setup", "result", "result_o", "result_e", "resultM", "resultM_m", "guard", "newspan"}
    Frames = {"in", "out"}
    Carriers = {"fn", "async_fn", "block"}
    MaxLen = 0
    F2Bug = TRUE
    Emit = FALSE
VIEW view
INVARIANTS TypeOK AtMostOnce ExactlyOnceIffEnabledStarted EnabledIsFilterVerdict
    ReturnValueTruthful ExtentIsStartToEnd CarriesLatestData PanicAddsErrAndLevel
    RefinesStatement LiveGuardWhole SetupBracketsSpan
PROPERTY ProbesAgree
ACTION_CONSTRAINT EmitReplay
CHECK_DEADLOCK FALSE
