\* C16 thorough (2 of 3): fragments of <= 2 characters over {a, 😀}, hole label {x}, <= 3 parts:
\* 585 templates, all 342 225 ordered pairs.
SPECIFICATION Spec
CONSTANTS
    Chars = {"a", "😀"}
    CharBytes <- MC_CharBytes
    Labels = {"x"}
    MaxFragLen = 2
    MaxParts = 3
    Algo = "repaired"
INVARIANTS CursorRefinesEqual CursorsInRange RenderIndependentOfSplit EquivalenceInv ChannelsAgree
PROPERTY Progress
CHECK_DEADLOCK FALSE
