\* C03 thorough (replay 1): 3 threads; instances new(), new(), shared(), shared() (storages 1,2,0,0); property maps {a:1},{a:2,b:1}; all kinds and forms;
\* <= 2 frames, 2 tasks (interleaved polls on one thread, tasks polled on different threads), nesting <= 2, panic unwinding; every transition replayed.
SPECIFICATION Spec
CONSTANTS
    NThreads = 3
    StoreOf <- MC_Store4
    NKeys = 2
    PropChoices <- MC_Props2
    Kinds <- MC_AllKinds
    Forms <- MC_AllForms
    MaxFrames = 2
    MaxTasks = 2
    MaxDepth = 2
    Panics = TRUE
    Emit = TRUE
VIEW cview
INVARIANTS InnermostWins NoTrace StackOK
PROPERTIES ExitRestores Isolation
ACTION_CONSTRAINT EmitReplay
CHECK_DEADLOCK FALSE
