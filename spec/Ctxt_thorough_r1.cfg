\* C03 thorough (replay 1): 3 threads; instances default(), default(), setup()-built, shared(), shared(); property maps {a:1},{a:2,b:1}; all kinds and forms;
\* <= 2 frames, 2 tasks (interleaved polls on one thread, tasks polled on different threads), nesting <= 2, panic unwinding; every transition replayed.
SPECIFICATION Spec
CONSTANTS
    NThreads = 3
    StoreOf <- MC_StoreQ
    InstKind <- MC_KindQ
    NKeys = 2
    PropChoices <- MC_Props2
    DupChoices <- MC_NoDups
    Kinds <- MC_AllKinds
    Forms <- MC_AllForms
    MaxFrames = 2
    MaxTasks = 2
    MaxDepth = 2
    Panics = TRUE
    Discards = FALSE
    Emit = TRUE
VIEW cview
INVARIANTS InnermostWins NoTrace StackOK
PROPERTIES ExitRestores Isolation
ACTION_CONSTRAINT EmitReplay
CHECK_DEADLOCK FALSE
