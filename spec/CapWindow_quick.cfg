\* X10 quick: window 32; scripts of 1 - 2 runs [length, count] over lengths {1, 10, 100, the saturation edge 16769767339735956014, usize::MAX} x counts
\* {1, 31, 32, 33}, plus burst-quiet-tail scripts (100 once, then 30 - 32 batches of 1, then 10); every hint of every batch. Exhaustive.
SPECIFICATION Spec
CONSTANTS
    W = 32
    Scripts <- MC_Scripts
    Which = "quick"
    Emit = TRUE
INVARIANTS WindowRefines Covers NotWasteful Forgets NoOverflow
ACTION_CONSTRAINT EmitReplay
CHECK_DEADLOCK FALSE
