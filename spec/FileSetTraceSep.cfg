\* level-A monitor over a recorded trace (env TRACE) of a production run with a multi-byte separator (8-byte records).
SPECIFICATION TSpec
CONSTANTS
    EvSize <- MC_EvSize
POSTCONDITION TraceAccepted
CHECK_DEADLOCK FALSE
