------------------------------ MODULE PathAlg ------------------------------
(***************************************************************************)
(* X06 - the algebra of `Path` (core/src/path.rs, storage in core/src/     *)
(* str.rs).                                                                *)
(*                                                                         *)
(* Level A (the statement): a path is a non-empty sequence of identifier   *)
(* segments; its text is the segments joined by `::`.                      *)
(*   validity      a text is a path iff it follows the grammar already     *)
(*                 specified for C15 (Text!IsPath, instantiated read-only) *)
(*   segments      the segments of the text of p are p                     *)
(*   is_child_of   p is a child of q iff q is a prefix of p (reflexive)    *)
(*   append        concatenation of the segment sequences                  *)
(*   == / Ord      those of the texts (UTF-8 byte order), whatever the     *)
(*                 storage form                                            *)
(*   static-ness   a path made from a `&'static str` (new, new_raw,        *)
(*                 path!) keeps knowing it through by_ref / clone /        *)
(*                 to_owned / From<&Path>; every other form does not, and  *)
(*                 `to_cow` borrows exactly for the former                 *)
(* Level B (the code): the text as UTF-8 bytes; `is_child_of` =            *)
(* is_char_boundary + split_at + starts_with("::"); `segments` =           *)
(* str::split("::"); `append` = push_str("::") + push_str; `Str`'s owner   *)
(* tag (None | Static | Box | Shared) through by_ref / clone / to_owned.   *)
(*                                                                         *)
(* One behaviour = pick a case (constructor text, storage form, pair,      *)
(* triple), evaluate level B, compare with level A.                        *)
(***************************************************************************)
EXTENDS Integers, Sequences, FiniteSets, TLC, Json

CONSTANTS
    Segs,        \* sequence of segment texts (each a sequence of one-character strings)
    BadSegs,     \* sequence of "segments" that make a text invalid (or not: the grammar decides)
    CharBytes,   \* character -> its UTF-8 bytes
    CtorLen,     \* constructor texts: joins of <= CtorLen of Segs and BadSegs
    FormLen,     \* storage forms: paths of <= FormLen segments
    FormDepth,   \* ... under <= FormDepth derived forms
    PairLen,     \* pairs of paths of <= PairLen segments
    TripleSegs,  \* triples: segment indices used
    TripleLen,   \* ... paths of <= TripleLen segments
    Emit

\* the grammar of C15, read-only (its own variables and bounds are irrelevant here)
T == INSTANCE Text WITH PathAlgo <- "repaired", PathChars <- {}, PathMaxLen <- 0,
                        LevelChars <- {}, LevelMaxLen <- 0, mach <- "none", txt <- <<>>, st <- 0

VARIABLES case, res, phase
vars == <<case, res, phase>>

-----------------------------------------------------------------------------
(* paths and texts *)
SeqsUpTo(S, n) == UNION {[1..k -> S] : k \in 1..n}
PathsOver(S, n) == SeqsUpTo(S, n)                      \* a path: a non-empty sequence of segment indices

RECURSIVE JoinSegs(_)                                   \* segments (char sequences) joined by ::
JoinSegs(ss) == IF Len(ss) = 1 THEN ss[1] ELSE ss[1] \o <<":", ":">> \o JoinSegs(Tail(ss))
SegTexts(p) == [i \in 1..Len(p) |-> Segs[p[i]]]
TextOf(p) == JoinSegs(SegTexts(p))

RECURSIVE BytesOf(_)
BytesOf(t) == IF t = <<>> THEN <<>> ELSE CharBytes[t[1]] \o BytesOf(Tail(t))

-----------------------------------------------------------------------------
(* Level A *)
ChildA(p, q) == Len(q) <= Len(p) /\ SubSeq(p, 1, Len(q)) = q
AppendA(p, q) == p \o q

\* the order of the texts as byte strings: -1, 0, 1
RECURSIVE CmpBytes(_, _)
CmpBytes(x, y) ==
    IF x = <<>> THEN (IF y = <<>> THEN 0 ELSE -1)
    ELSE IF y = <<>> THEN 1
    ELSE IF x[1] < y[1] THEN -1 ELSE IF x[1] > y[1] THEN 1 ELSE CmpBytes(Tail(x), Tail(y))
CmpA(p, q) == CmpBytes(BytesOf(TextOf(p)), BytesOf(TextOf(q)))

BaseForms == {"new", "new_raw", "macro", "new_ref", "new_ref_raw", "new_owned", "new_owned_raw",
              "cow_borrowed", "cow_owned", "cow_borrowed_raw", "cow_owned_raw", "str_shared", "from_value"}
Derived == {"by_ref", "clone", "to_owned", "from_ref"}
StaticA(f) == f[1] \in {"new", "new_raw", "macro"}      \* f = <<base, derived...>>; derived forms preserve it

(* Level B *)
\* str::is_char_boundary(n) on a byte string (n = number of bytes before the offset)
IsContinuation(b) == b >= 128 /\ b < 192
IsCharBoundaryB(bs, n) ==
    IF n = 0 \/ n = Len(bs) THEN TRUE
    ELSE IF n > Len(bs) THEN FALSE
    ELSE ~IsContinuation(bs[n + 1])

StartsWithB(bs, pre) == Len(pre) <= Len(bs) /\ SubSeq(bs, 1, Len(pre)) = pre
Sep == <<58, 58>>

\* Path::is_child_of
ChildB(child, parent) ==
    IF IsCharBoundaryB(child, Len(parent))
    THEN LET prefix == SubSeq(child, 1, Len(parent))                     \* child.split_at(parent.len())
             suffix == SubSeq(child, Len(parent) + 1, Len(child))
         IN prefix = parent /\ (suffix = <<>> \/ StartsWithB(suffix, Sep))
    ELSE FALSE

\* str::split("::"): left to right, non-overlapping
RECURSIVE SplitB(_, _)
SplitB(bs, cur) ==
    IF bs = <<>> THEN <<cur>>
    ELSE IF StartsWithB(bs, Sep) THEN <<cur>> \o SplitB(SubSeq(bs, 3, Len(bs)), <<>>)
    ELSE SplitB(Tail(bs), Append(cur, bs[1]))

\* Path::append: into_string, push_str("::"), push_str(other)
AppendB(x, y) == x \o Sep \o y

\* Str's owner tag
OwnerOfBase(b) ==
    CASE b \in {"new", "new_raw", "macro"} -> "Static"
      [] b \in {"new_ref", "new_ref_raw", "cow_borrowed", "cow_borrowed_raw"} -> "None"
      [] b \in {"new_owned", "new_owned_raw", "cow_owned", "cow_owned_raw"} -> "Box"
      [] b = "str_shared" -> "Shared"
      [] b = "from_value" -> "None"          \* a borrowed string value: to_cow_str gives Cow::Borrowed
OwnerStep(o, d) ==
    CASE d \in {"by_ref", "from_ref"} -> IF o = "Static" THEN "Static" ELSE "None"
      [] d = "clone" -> o
      [] d = "to_owned" -> IF o \in {"Static", "Shared"} THEN o ELSE "Box"
RECURSIVE OwnerB(_)
OwnerB(f) == IF Len(f) = 1 THEN OwnerOfBase(f[1]) ELSE OwnerStep(OwnerB(SubSeq(f, 1, Len(f) - 1)), f[Len(f)])
StaticB(f) == OwnerB(f) = "Static"            \* get_static().is_some(), to_cow() is Cow::Borrowed

-----------------------------------------------------------------------------
(* cases *)
\* constructor texts are kept as part indices (TLC's state queue does not preserve non-ASCII strings)
Parts == Segs \o BadSegs
CtorParts == SeqsUpTo(1..Len(Parts), CtorLen) \cup {<<>>}
CtorText(ps) == IF ps = <<>> THEN <<>> ELSE JoinSegs([i \in 1..Len(ps) |-> Parts[ps[i]]])

Forms == UNION {{<<b>> \o d : d \in [1..k -> Derived]} : b \in BaseForms, k \in 0..FormDepth}

AllSegIdx == 1..Len(Segs)
Cases ==
    {[kind |-> "ctor", parts |-> ps] : ps \in CtorParts}
    \cup {[kind |-> "form", p |-> p, form |-> f] : p \in PathsOver(AllSegIdx, FormLen), f \in Forms}
    \cup {[kind |-> "pair", p |-> p, q |-> q] : p \in PathsOver(AllSegIdx, PairLen), q \in PathsOver(AllSegIdx, PairLen)}
    \cup {[kind |-> "triple", p |-> p, q |-> q, r |-> r] :
             p \in PathsOver(TripleSegs, TripleLen), q \in PathsOver(TripleSegs, TripleLen),
             r \in PathsOver(TripleSegs, TripleLen)}

Init == case \in Cases /\ res = <<>> /\ phase = "ready"

B(p) == BytesOf(TextOf(p))

Eval ==
    /\ phase = "ready"
    /\ phase' = "done"
    /\ UNCHANGED case
    /\ res' =
        CASE case.kind = "ctor" -> [valid |-> T!IsPath(CtorText(case.parts))]
          [] case.kind = "form" -> [static |-> StaticB(case.form), segs |-> SplitB(B(case.p), <<>>)]
          [] case.kind = "pair" ->
                [pq |-> ChildB(B(case.p), B(case.q)), qp |-> ChildB(B(case.q), B(case.p)),
                 app |-> AppendB(B(case.p), B(case.q)),
                 appsegs |-> SplitB(AppendB(B(case.p), B(case.q)), <<>>)]
          [] case.kind = "triple" ->
                [left |-> AppendB(AppendB(B(case.p), B(case.q)), B(case.r)),
                 right |-> AppendB(B(case.p), AppendB(B(case.q), B(case.r)))]

Next == Eval
Spec == Init /\ [][Next]_vars

-----------------------------------------------------------------------------
(* Properties *)
Done == phase = "done"
SegBytes(p) == [i \in 1..Len(p) |-> BytesOf(Segs[p[i]])]

\* every join of identifier segments is a path by the grammar (so the relational laws speak about valid paths)
JoinsAreValid == case.kind \in {"form", "pair"} => T!IsPath(TextOf(case.p))

FormRule == Done /\ case.kind = "form" =>
    /\ res.static = StaticA(case.form)
    /\ res.segs = SegBytes(case.p)                                    \* segments round-trip

ChildRule == Done /\ case.kind = "pair" =>
    /\ res.pq = ChildA(case.p, case.q)
    /\ res.qp = ChildA(case.q, case.p)

AppendRule == Done /\ case.kind = "pair" =>
    /\ res.app = B(AppendA(case.p, case.q))
    /\ res.appsegs = SegBytes(AppendA(case.p, case.q))
    /\ T!IsPath(TextOf(AppendA(case.p, case.q)))
    /\ ChildB(res.app, B(case.p))                                     \* append(p, q) is a child of p
    /\ (ChildB(res.app, B(case.q)) <=> ChildA(AppendA(case.p, case.q), case.q))

\* is_child_of is a partial order up to equality; == and Ord are those of the texts
OrderLaws == case.kind = "triple" =>
    LET p == case.p  q == case.q  r == case.r
        C(x, y) == ChildB(B(x), B(y))
    IN /\ C(p, p)
       /\ (C(p, q) /\ C(q, r)) => C(p, r)
       /\ (C(p, q) /\ C(q, p)) => p = q
       /\ (CmpA(p, q) = 0) <=> (p = q)
       /\ CmpA(p, q) = -CmpA(q, p)
       /\ (CmpA(p, q) <= 0 /\ CmpA(q, r) <= 0) => CmpA(p, r) <= 0
       /\ C(p, q) => C(AppendA(p, r), q)                              \* children of children

AppendAssociative == Done /\ case.kind = "triple" =>
    /\ res.left = res.right
    /\ res.left = B(AppendA(AppendA(case.p, case.q), case.r))

-----------------------------------------------------------------------------
(* spec -> code *)
CaseJson(c) ==
    CASE c.kind = "ctor" ->
            LET t == CtorText(c.parts)
            IN [kind |-> "ctor", text |-> t, valid |-> T!IsPath(t),
                dontcare |-> T!IsPath(t) /\ T!UnderscoreSegment(t)]
      [] c.kind = "form" -> [kind |-> "form", text |-> TextOf(c.p), segs |-> SegTexts(c.p), form |-> c.form,
                             static |-> StaticA(c.form)]
      [] c.kind = "pair" -> [kind |-> "pair", p |-> TextOf(c.p), q |-> TextOf(c.q),
                             p_child_of_q |-> ChildA(c.p, c.q), q_child_of_p |-> ChildA(c.q, c.p),
                             eq |-> c.p = c.q, cmp |-> CmpA(c.p, c.q),
                             append |-> TextOf(AppendA(c.p, c.q)), append_segs |-> SegTexts(AppendA(c.p, c.q))]
      [] c.kind = "triple" -> [kind |-> "triple", p |-> TextOf(c.p), q |-> TextOf(c.q), r |-> TextOf(c.r),
                               append |-> TextOf(AppendA(AppendA(c.p, c.q), c.r)),
                               cmp_pq |-> CmpA(c.p, c.q), cmp_qr |-> CmpA(c.q, c.r), cmp_pr |-> CmpA(c.p, c.r),
                               pq |-> ChildA(c.p, c.q), qr |-> ChildA(c.q, c.r), pr |-> ChildA(c.p, c.r)]

EmitReplay == Emit => PrintT(<<"REPLAY", ToJson(CaseJson(case'))>>)
=============================================================================
