\* X04 values quick: every flags byte (hex, sampled, !); & and | over 10 x 10 bytes; flags texts of <= 3 characters over
\* {0, 1, 9, a, f, A, F, g, G, space, -}; traceparents over 3 trace ids (incl. all f, 0..01) + none x 3 span ids + none x 6 flag bytes;
\* tracestates: 5 texts (empty, two valid, one invalid, blank) x 3 constructor forms, pairwise. Exhaustive.
SPECIFICATION Spec
CONSTANTS
    FlagTexts <- MC_FlagTexts
    PairBytes = {0, 1, 2, 3, 15, 16, 128, 129, 254, 255}
    TidHex <- MC_TidHex
    SidHex <- MC_SidHex
    TpFlags = {0, 1, 2, 3, 254, 255}
    TsTexts <- MC_TsTexts
    TsForms = {"new_raw", "new_owned_raw", "new_str_raw"}
    Emit = TRUE
INVARIANTS FlagsHexRule FlagsOpsRule FlagsParseRule TpRoundTrip
ACTION_CONSTRAINT EmitReplay
CHECK_DEADLOCK FALSE
