------------------------------- MODULE StrOwn -------------------------------
(***************************************************************************)
(* X08 - ownership and borrowing of `Str` and `Value` (core/src/str.rs,    *)
(* core/src/value.rs).                                                     *)
(*                                                                         *)
(* A storage form is a constructor followed by derivation steps.           *)
(*                                                                         *)
(* Str, level A (the docs): a Str holds one of `&'k str`, `&'static str`,  *)
(* `Box<str>`, `Arc<str>` - its kind: borrowed, static, owned, shared.     *)
(*   get            the text, whatever the form                            *)
(*   get_static     Some exactly for the static kind ("created from        *)
(*                  Str::new and contains a 'static value"); to_cow        *)
(*                  borrows exactly then                                   *)
(*   by_ref / From<&Str> / ToStr   borrow the same buffer; static stays    *)
(*                  static, every other kind becomes borrowed              *)
(*   clone          owned: "cloning the string will involve cloning the    *)
(*                  value" (a fresh buffer); shared: clones the Arc (the   *)
(*                  same buffer); static / borrowed: the same buffer       *)
(*   to_owned       static / shared: "cheap and doesn't involve cloning"   *)
(*                  (same buffer, same kind); otherwise a fresh owned one  *)
(*   to_shared      static / shared likewise; otherwise a fresh shared one *)
(*   through a Value and back (to_value, cast::<Str>)   the same buffer,   *)
(*                  borrowed (never static)                                *)
(*   == / Ord / Hash   those of the texts, whatever the forms              *)
(* Str, level B (the code): the StrOwner tag None | Static | Box | Shared  *)
(* and the match arms of by_ref / clone / to_owned / to_shared / to_cow /  *)
(* get_static.                                                             *)
(*                                                                         *)
(* Value, level A (docs of to_cow_str / to_borrowed_str / by_ref /         *)
(* to_owned / to_shared): a value is a captured string (str), a string     *)
(* that comes out of a serialization framework (ser), something formatted  *)
(* (fmt: Display, or dbg: Debug), a number (int) or null; every derivation *)
(* (by_ref, clone, from_any, to_owned().by_ref(), to_shared().by_ref(),    *)
(* ...) keeps the class and the content:                                   *)
(*   to_cow_str     str: Some(Borrowed); ser: Some(either); else None      *)
(*   to_borrowed_str / cast::<&str>   str: Some; fmt, int, null: None      *)
(*                  (ser: not said)                                        *)
(*   cast::<Str> / <String> / <Cow<str>>   Some(text) exactly for str/ser  *)
(*   Display        str, fmt: the text; int: the digits (ser, dbg, null:   *)
(*                  not said)                                              *)
(*   parse          from the text when str; from the formatted text else   *)
(* Value, level B: the representation tag behind the value (str | serde |  *)
(* sval | display | debug | i64 | none) and whether it has been buffered   *)
(* by to_owned / to_shared; the class is a function of the tag.            *)
(***************************************************************************)
EXTENDS Naturals, Sequences, FiniteSets, TLC, Json

CONSTANTS StrDepth, ValDepth, Texts, Emit

VARIABLES case, res, phase
vars == <<case, res, phase>>

-----------------------------------------------------------------------------
(* Str *)
\* constructors and the kind they give
StrBases == [new |-> "static", new_ref |-> "borrowed", new_owned_string |-> "owned", new_owned_box |-> "owned",
             new_owned_str |-> "owned", new_shared_arc |-> "shared", new_shared_str |-> "shared",
             cow_borrowed |-> "borrowed", cow_owned |-> "owned", from_str |-> "borrowed", from_string |-> "owned",
             from_box |-> "owned", from_arc |-> "shared", from_ref_string |-> "borrowed", tostr_str |-> "borrowed",
             tostr_string |-> "borrowed", tostr_box |-> "borrowed", tostr_arc |-> "shared",
             from_value |-> "borrowed", from_value_serde |-> "owned"]
StrSteps == {"by_ref", "from_ref", "to_str", "clone", "to_owned", "to_shared", "via_value"}

\* level A: [kind, rel] after a step; rel: the buffer is the parent's ("same") or a new one ("fresh")
StepA(kind, s) ==
    CASE s \in {"by_ref", "from_ref", "to_str"} -> [kind |-> IF kind = "static" THEN "static" ELSE "borrowed", rel |-> "same"]
      [] s = "via_value" -> [kind |-> "borrowed", rel |-> "same"]
      [] s = "clone" -> [kind |-> kind, rel |-> IF kind = "owned" THEN "fresh" ELSE "same"]
      [] s = "to_owned" -> IF kind \in {"static", "shared"} THEN [kind |-> kind, rel |-> "same"] ELSE [kind |-> "owned", rel |-> "fresh"]
      [] s = "to_shared" -> IF kind \in {"static", "shared"} THEN [kind |-> kind, rel |-> "same"] ELSE [kind |-> "shared", rel |-> "fresh"]

\* level B: the owner tag
OwnerOfKind(k) == CASE k = "static" -> "Static" [] k = "borrowed" -> "None" [] k = "owned" -> "Box" [] k = "shared" -> "Shared"
StepB(o, s) ==
    CASE s \in {"by_ref", "from_ref", "to_str"} -> [o |-> IF o = "Static" THEN "Static" ELSE "None", fresh |-> FALSE]   \* by_ref's match
      [] s = "via_value" -> [o |-> "None", fresh |-> FALSE]            \* to_value: get().to_value(); from_value: to_cow_str (Borrowed) -> new_ref
      [] s = "clone" -> [o |-> o, fresh |-> o = "Box"]                  \* Box: new_owned(&*value); Shared: value.clone(); else copy the pointer
      [] s = "to_owned" -> IF o = "Static" \/ o = "Shared" THEN [o |-> o, fresh |-> FALSE] ELSE [o |-> "Box", fresh |-> TRUE]
      [] s = "to_shared" -> IF o = "Static" \/ o = "Shared" THEN [o |-> o, fresh |-> FALSE] ELSE [o |-> "Shared", fresh |-> TRUE]

RECURSIVE FoldA(_, _, _), FoldB(_, _, _)
FoldA(kind, steps, acc) ==
    IF steps = <<>> THEN [kind |-> kind, rels |-> acc]
    ELSE LET r == StepA(kind, Head(steps)) IN FoldA(r.kind, Tail(steps), Append(acc, r.rel))
FoldB(o, steps, acc) ==
    IF steps = <<>> THEN [o |-> o, fresh |-> acc]
    ELSE LET r == StepB(o, Head(steps)) IN FoldB(r.o, Tail(steps), Append(acc, r.fresh))

-----------------------------------------------------------------------------
(* Value *)
ValBases == [from_str |-> "str", from_string |-> "str", from_cow_borrowed |-> "str", from_cow_owned |-> "str",
             str_static_to_value |-> "str", str_owned_to_value |-> "str", str_shared_to_value |-> "str", from_any_str |-> "str",
             capture_display_string |-> "str", capture_serde_string |-> "str", capture_sval_string |-> "str",
             from_serde_string |-> "serde", from_sval_str |-> "sval",
             from_display |-> "display", capture_display_custom |-> "display", from_debug |-> "debug",
             from_i64 |-> "i64", null |-> "none", from_none_option |-> "none"]
ValSteps == {"by_ref", "clone", "from_any", "to_value", "to_owned", "to_shared", "owned_clone", "from_owned_ref"}
Buffers(s) == s \in {"to_owned", "to_shared", "owned_clone", "from_owned_ref"}     \* goes through an OwnedValue and back by_ref

ClassOf(tag) == CASE tag = "str" -> "str" [] tag \in {"serde", "sval"} -> "ser" [] tag = "display" -> "fmt" [] tag = "debug" -> "dbg"
                  [] tag = "i64" -> "int" [] tag = "none" -> "null"
\* level B: a derivation keeps the tag; buffering is remembered (it decides what is not said at level A)
RECURSIVE FoldV(_, _)
FoldV(r, steps) == IF steps = <<>> THEN r ELSE FoldV([tag |-> r.tag, buffered |-> r.buffered \/ Buffers(Head(steps))], Tail(steps))
\* level A: a derivation keeps the class
ClassAfter(base, steps) == ClassOf(ValBases[base])

\* what the statement says about a value of a class ("any" = not said)
ValObsA(class, numeric) ==
    [to_cow_str |-> CASE class = "str" -> "borrowed" [] class = "ser" -> "some" [] OTHER -> "none",
     to_borrowed_str |-> CASE class = "str" -> "some" [] class = "ser" -> "any" [] OTHER -> "none",
     cast_string |-> IF class \in {"str", "ser"} THEN "some" ELSE "none",
     display |-> CASE class \in {"str", "fmt"} -> "text" [] class = "int" -> "digits" [] OTHER -> "any",
     parse_i64 |-> CASE class \in {"str", "ser", "fmt"} -> (IF numeric THEN "some" ELSE "none") [] class = "int" -> "some"
                     [] class = "null" -> "none" [] OTHER -> "any",
     is_null |-> class = "null"]

-----------------------------------------------------------------------------
Chains(S, n) == UNION {[1..k -> S] : k \in 0..n}
Cases ==
    {[kind |-> "str", base |-> b, steps |-> c, text |-> t] : b \in DOMAIN StrBases, c \in Chains(StrSteps, StrDepth), t \in Texts}
    \cup {[kind |-> "val", base |-> b, steps |-> c, text |-> t] : b \in DOMAIN ValBases, c \in Chains(ValSteps, ValDepth), t \in Texts}
    \cup {[kind |-> "cmp", a |-> a, b |-> b, x |-> x, y |-> y] : a \in DOMAIN StrBases, b \in DOMAIN StrBases, x \in Texts, y \in Texts}

Init == case \in Cases /\ res = <<>> /\ phase = "ready"
Eval ==
    /\ phase = "ready" /\ phase' = "done" /\ UNCHANGED case
    /\ res' = CASE case.kind = "str" -> FoldB(OwnerOfKind(StrBases[case.base]), case.steps, <<>>)
                [] case.kind = "val" -> FoldV([tag |-> ValBases[case.base], buffered |-> FALSE], case.steps)
                [] OTHER -> <<>>
Next == Eval
Spec == Init /\ [][Next]_vars

-----------------------------------------------------------------------------
Done == phase = "done"
A == FoldA(StrBases[case.base], case.steps, <<>>)
\* the code's owner tag is the documented kind, step by step the buffers relate as documented
StrRefines == Done /\ case.kind = "str" =>
    /\ res.o = OwnerOfKind(A.kind)
    /\ Len(res.fresh) = Len(A.rels)
    /\ \A i \in 1..Len(A.rels) : res.fresh[i] = (A.rels[i] = "fresh")
\* static-ness: never gained, lost only through to_value / cast
StaticRule == Done /\ case.kind = "str" =>
    /\ (res.o = "Static") => StrBases[case.base] = "static"
    /\ (StrBases[case.base] = "static" /\ \A i \in 1..Len(case.steps) : case.steps[i] # "via_value") => res.o = "Static"
\* an owned copy is never borrowed: to_owned / to_shared end in a form that does not borrow from its parent unless it shares it
OwnedIsOwned == Done /\ case.kind = "str" /\ case.steps # <<>> /\ case.steps[Len(case.steps)] \in {"to_owned", "to_shared"} =>
    res.o # "None"
ValClassKept == Done /\ case.kind = "val" => ClassOf(res.tag) = ClassAfter(case.base, case.steps)

Numeric(t) == t = "42"
CaseJson(c) ==
    CASE c.kind = "str" ->
            LET a == FoldA(StrBases[c.base], c.steps, <<>>)
            IN [kind |-> "str", base |-> c.base, steps |-> c.steps, text |-> c.text, static |-> a.kind = "static", rels |-> a.rels,
                final_kind |-> a.kind]
      [] c.kind = "val" ->
            [kind |-> "val", base |-> c.base, steps |-> c.steps, text |-> c.text, class |-> ClassAfter(c.base, c.steps),
             obs |-> ValObsA(ClassAfter(c.base, c.steps), Numeric(c.text))]
      [] c.kind = "cmp" -> [kind |-> "cmp", a |-> c.a, b |-> c.b, x |-> c.x, y |-> c.y, eq |-> c.x = c.y]

EmitReplay == Emit => PrintT(<<"REPLAY", ToJson(CaseJson(case'))>>)
=============================================================================
