\* C18 thorough (model checking only, 3; sampled-trace filter on): 2 threads, <= 2 spans, <= 3 frames, 1 task, nesting <= 3, headers sampled/unsampled (same trace), other trace, invalid (span id only), all forms.
SPECIFICATION Spec
CONSTANTS
    NThreads = 2
    MaxSpans = 2
    MaxFrames = 3
    MaxTasks = 1
    MaxDepth = 3
    Headers <- MC_Headers4
    InSampled = TRUE
    SnapshotOnPush = TRUE
    WithLazy = TRUE
    WithCurrent = TRUE
    FrameKinds <- MC_NoKinds
    Sampler = TRUE
    CtxForms <- MC_Forms
    Panics = TRUE
    Emit = FALSE
VIEW tview
INVARIANTS SamplerOncePerTrace DecisionGoverns UnsampledSilent SampledConsistent NoTraceNoParent FrameCarries
PROPERTIES Restored
ACTION_CONSTRAINT EmitReplay
CHECK_DEADLOCK FALSE
