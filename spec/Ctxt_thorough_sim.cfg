\* C03 thorough (simulation): 2 threads; instances default(), default(), setup()-built, new(), shared(), shared(); property maps {a:1},{a:2,b:1},{b:2}; all kinds and forms;
\* <= 3 frames, 2 tasks, nesting <= 3, panic unwinding; random behaviours of depth 14 replayed.
SPECIFICATION Spec
CONSTANTS
    NThreads = 2
    StoreOf <- MC_StoreT
    InstKind <- MC_KindT
    NKeys = 2
    PropChoices <- MC_Props3
    DupChoices <- MC_Dups
    Kinds <- MC_AllKinds
    Forms <- MC_AllForms
    MaxFrames = 3
    MaxTasks = 2
    MaxDepth = 3
    Panics = TRUE
    Discards = TRUE
    Emit = TRUE
VIEW cview
INVARIANTS InnermostWins NoTrace StackOK
PROPERTIES ExitRestores Isolation
ACTION_CONSTRAINT EmitReplay
CHECK_DEADLOCK FALSE
