\* C13 design-level finding f9: the transcription of the code as found (without the repair / carve-out)
\* on the small event set; TLC is expected to report the invariant.
SPECIFICATION Spec
CONSTANTS
    Events <- MC_Events
    FixF8 = TRUE
    FixF9 = FALSE
    AndClaimsUnique = FALSE
    CarveF17 = TRUE
    Emit = FALSE
    MaxExtras = 2
    Tier = "small"
INVARIANTS TypeOK UniqueClaimSound AttrKeysUnique EveryPropOnce FirstWins WellKnownLifted Total Refines
CHECK_DEADLOCK FALSE
