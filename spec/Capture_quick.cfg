\* C19 quick: every call site (capture mode x type class that compiles) x every transformation
\* path of length <= 4 over {ByRef, Erase, EraseEvent, ToOwned, ToShared, IntoCtxt, MoveThread, ReadBack}.
SPECIFICATION Spec
CONSTANTS
    MaxSteps = 4
    Emit = TRUE
INVARIANTS TypeOK Preserved PresenceNeverLost TypedSurvivesBuffering StructureSurvivesBuffering DirectReadKeepsAll
ACTION_CONSTRAINT EmitReplay
CHECK_DEADLOCK FALSE
