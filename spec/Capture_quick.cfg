\* C19 quick: every call site (capture mode incl. inspect: absent/false/true x type class x macro wrap: props!,
\* renamed key before/after the mode, evt! property, evt! template hole) x every transformation path of length <= 3
\* over {ByRef, Erase, EraseEvent, ToOwned, ToShared, IntoCtxt, PushFrame, MoveThread, ReadBack} x every read path of
\* the final representation; paths of length <= 1 on every pool extreme, longer ones on one seeded draw.
\* + mode from_value (hand-built properties: Value::from of primitives / &String / &Cow / Option / &[T; N], to_value of
\* dyn Display / dyn Debug / dyn Error / [T; N]); typed read paths as_f64, to_borrowed_str, cast::<&str>, cast::<String>,
\* cast::<&dyn Error> where the call site promises the typed component.
\* + every Display / Debug observation under the plain formatter and 8 formatter flag families (alternate, width, fill,
\* precision, width+precision, sign, zero-pad, hex-debug), incl. flagged template holes.
\* + attribute order: a true #[cfg(all())] before / after the capture attribute(s) of a pair, and between #[emit::optional] and the mode.
SPECIFICATION Spec
CONSTANTS
    MaxSteps = 3
    ExhaustUpTo = 1
    Emit = TRUE
INVARIANTS TypeOK Preserved PresenceNeverLost TypedSurvivesBuffering StructureSurvivesBuffering DirectReadKeepsAll
PROPERTY ReadersAgree
ACTION_CONSTRAINT EmitReplay
CHECK_DEADLOCK FALSE
