\* C04 thorough (replay 1): 2 threads, <= 2 spans (verdict free), <= 3 frames, 1 task, nesting <= 3, all forms, incoming ids as a trace id alone / a span id alone, async-fn spans; every transition replayed.
SPECIFICATION SSpec
CONSTANTS
    NThreads = 2
    StoreOf <- MC_Store1
    InstKind <- MC_Kind1
    NKeys = 3
    PropChoices <- MC_None
    DupChoices <- MC_NoDups
    Kinds <- MC_None
    Forms <- MC_None
    MaxFrames = 3
    MaxTasks = 1
    MaxDepth = 3
    Panics = TRUE
    Discards = FALSE
    MaxSpans = 2
    IncomingKinds <- MC_IncPartial
    WithLazy = TRUE
    HasRng = TRUE
    ExplicitKinds <- MC_ExNone
    PushLastWins = FALSE
    WithCancel = TRUE
    CancelOwnIds = FALSE
    CtxForms <- MC_Forms
    Emit = TRUE
VIEW sview
INVARIANTS InnermostWins NoTrace StackOK FrameIds AmbientIds OneTrace ParentIsEnclosing EventCarriesInnermost IdsDistinct
PROPERTIES Revert
ACTION_CONSTRAINT SEmitReplay
CHECK_DEADLOCK FALSE
