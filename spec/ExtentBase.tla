----------------------------- MODULE ExtentBase -----------------------------
(***************************************************************************)
(* X02 (shared with X01) - instants, durations and extents.                *)
(*                                                                         *)
(* An instant / a duration is <<secs, nanos>> (nanos < 10^9); Absent is    *)
(* the empty tuple (a clock without a reading, a missing bound, `None`).   *)
(*                                                                         *)
(* Level A (the statement, core/src/extent.rs docs): an extent is nothing, *)
(* a point or a range; the accessors are defined on that.                  *)
(* Level B (the code): `struct Extent { range: Range<Timestamp>, is_range }`*)
(* with `point(ts) = ts..ts`, and Duration::checked_sub's borrow.          *)
(***************************************************************************)
EXTENDS Integers, Sequences, FiniteSets, TLC

CONSTANT Instants      \* set of <<secs, nanos>>, secs <= 10^9 (32-bit TLC integers)

Absent == <<>>
G == 1000000000
OptInstants == Instants \cup {Absent}

-----------------------------------------------------------------------------
(* instants and durations *)

LeI(a, b) == a[1] < b[1] \/ (a[1] = b[1] /\ a[2] <= b[2])

\* a + d, with carry
AddD(a, d) == LET n == a[2] + d[2]
              IN IF n >= G THEN <<a[1] + d[1] + 1, n - G>> ELSE <<a[1] + d[1], n>>

\* Level A: the time from b to a is the duration d with b + d = a; there is none when a is
\* before b ("will return None if earlier is actually after self").  The candidates are the
\* two possible second counts; the defining equation picks.
DiffA(a, b) ==
    IF LeI(b, a)
    THEN CHOOSE d \in {<<x, (a[2] + G - b[2]) % G>> : x \in {a[1] - b[1], a[1] - b[1] - 1}} :
            d[1] >= 0 /\ AddD(b, d) = a
    ELSE Absent
SinceA(e, s) == DiffA(e, s)

\* Level B: core::time::Duration::checked_sub as Timestamp::duration_since uses it
SinceB(e, s) ==
    IF e[1] >= s[1]
    THEN LET secs == e[1] - s[1]
         IN IF e[2] >= s[2] THEN <<secs, e[2] - s[2]>>
            ELSE IF secs >= 1 THEN <<secs - 1, e[2] + G - s[2]>>
            ELSE Absent
    ELSE Absent

\* now - d, Absent below the epoch (Timestamp::checked_sub); d is a duration
MinusA(now, d) == DiffA(now, d)
MinusB(now, d) == SinceB(now, d)

-----------------------------------------------------------------------------
(* Level A: extents and what their accessors say *)

NoX == [kind |-> "none", start |-> Absent, end |-> Absent]
PointX(t) == [kind |-> "point", start |-> t, end |-> t]
RangeX(s, e) == [kind |-> "range", start |-> s, end |-> e]

\* what every public accessor reports, for an extent or its absence:
\*   some       the conversion produced an extent
\*   is_point / is_range
\*   point      as_point: the instant of a point; the end bound of a range
\*   range      as_range: <<start, end>> for a range (also when empty or backwards), else Absent
\*   len        the length of a range when it is not backwards, else Absent
\*   props      the extent as properties: ts_start and ts for a range, ts for a point
\*   ts, ts_start   the accessors of Event / Metric / Span carrying the extent
ObsA(x) ==
    [some |-> x.kind # "none",
     is_point |-> x.kind = "point",
     is_range |-> x.kind = "range",
     point |-> x.end,
     range |-> IF x.kind = "range" THEN <<x.start, x.end>> ELSE Absent,
     len |-> IF x.kind = "range" THEN SinceA(x.end, x.start) ELSE Absent,
     props |-> IF x.kind = "range" THEN {<<"ts_start", x.start>>, <<"ts", x.end>>}
               ELSE IF x.kind = "point" THEN {<<"ts", x.end>>} ELSE {},
     ts |-> x.end,
     ts_start |-> IF x.kind = "range" THEN x.start ELSE Absent]

-----------------------------------------------------------------------------
(* Level B: the struct and its methods *)

NoneB == [isnone |-> TRUE, start |-> Absent, end |-> Absent, isr |-> FALSE]
PointB(t) == [isnone |-> FALSE, start |-> t, end |-> t, isr |-> FALSE]         \* Extent::point
RangeB(s, e) == [isnone |-> FALSE, start |-> s, end |-> e, isr |-> TRUE]       \* Extent::range

IsRangeB(x) == x.isr
IsPointB(x) == ~IsRangeB(x)
AsPointB(x) == x.end
AsRangeB(x) == IF IsRangeB(x) THEN <<x.start, x.end>> ELSE Absent
LenB(x) == IF IsRangeB(x) THEN SinceB(x.end, x.start) ELSE Absent
PropsB(x) == IF AsRangeB(x) # Absent
             THEN {<<"ts_start", AsRangeB(x)[1]>>, <<"ts", AsRangeB(x)[2]>>}
             ELSE {<<"ts", AsPointB(x)>>}

ObsB(x) ==
    IF x.isnone
    THEN [some |-> FALSE, is_point |-> FALSE, is_range |-> FALSE, point |-> Absent, range |-> Absent,
          len |-> Absent, props |-> {}, ts |-> Absent, ts_start |-> Absent]
    ELSE [some |-> TRUE,
          is_point |-> IsPointB(x),
          is_range |-> IsRangeB(x),
          point |-> AsPointB(x),
          range |-> AsRangeB(x),
          len |-> LenB(x),
          props |-> PropsB(x),
          ts |-> AsPointB(x),                                                   \* extent.map(as_point)
          ts_start |-> IF AsRangeB(x) # Absent THEN AsRangeB(x)[1] ELSE Absent] \* and_then(as_range).map(start)

\* a json-friendly form of an observation (sets of tuples print as arrays of arrays)
ObsJson(o) == o
=============================================================================
