\* C18 thorough (simulation; sampled-trace filter on): 2 threads, <= 4 spans, <= 6 frames, 2 tasks (async siblings), nesting <= 3, all eight headers (incl. invalid: no ids, span id only, trace id only); random behaviours of depth 18 replayed.
SPECIFICATION Spec
CONSTANTS
    NThreads = 2
    MaxSpans = 4
    MaxFrames = 6
    MaxTasks = 2
    MaxDepth = 3
    Headers <- MC_HeadersAll
    InSampled = TRUE
    SnapshotOnPush = TRUE
    WithLazy = TRUE
    WithCurrent = TRUE
    FrameKinds <- MC_NoKinds
    Sampler = TRUE
    CtxForms <- MC_Forms
    Panics = TRUE
    Emit = TRUE
VIEW tview
INVARIANTS SamplerOncePerTrace DecisionGoverns UnsampledSilent SampledConsistent NoTraceNoParent FrameCarries
PROPERTIES Restored
ACTION_CONSTRAINT EmitReplay
CHECK_DEADLOCK FALSE
