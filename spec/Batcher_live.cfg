\* Batcher liveness: same constants as quick 1 plus receiver kill off; weak fairness on the receiver,
\* on every sender/flusher thread and on the final sender drop. No state constraint.
SPECIFICATION FairSpec
CONSTANTS
    SenderOps <- Q_SenderOps
    FlusherOps <- Q_FlusherOps
    Cap = 1
    MaxRetry = 1
    MaxFail = 2
    AnyRemainder = FALSE
    NonEmptyRem = FALSE
    OutcomeSet = {"ok", "fail", "retry", "panic", "panicFut"}
    AllowKill = FALSE
    MaxIdleDelay = 500
    Emit = FALSE
VIEW view
PROPERTIES FlushLive Drain DrainClean AllProcessed BlockedSenderWakes
CHECK_DEADLOCK FALSE
