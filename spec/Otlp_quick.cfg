\* C12 quick (level B, one signal): 3 events of size 1..2 units, request limits 1..3 units, every
\* flush after the last event and optionally after event 1 or 2, every
\* interleaving of the emitting thread and the worker, collector decisions ack|reject|stall (before head)|stallbody|stalltrail|rstbody|dropb|dropa|refuse
\* with <= 2 non-acks, retry budget 10 (never exhausted); REPLAY scenarios from the canonical schedule.
SPECIFICATION Spec
CONSTANTS
    NEvents = 3
    Sizes = {1, 2}
    Limits = {1, 2, 3}
    MidFlushes = {{}, {1}, {2}}
    Faults = {"reject", "stall", "stallbody", "stalltrail", "rstbody", "dropb", "dropa", "refuse"}
    MaxFaults = 2
    MaxRetry = 10
    DoublePop = FALSE
    Emit = TRUE
VIEW view
INVARIANTS TypeOK Grouping AtLeastOnce ExactlyOnceWhenClean ResendSame FreshConnAfterBreak NoSilentLoss
ACTION_CONSTRAINT EmitReplay
CHECK_DEADLOCK FALSE
