\* C03 quick (inert contexts): 1 thread; instances default(), emit::Empty as a Ctxt, Option::None; all kinds and forms; <= 2 frames, 1 task, nesting <= 2, panics, discards; every transition replayed.
SPECIFICATION Spec
CONSTANTS
    NThreads = 1
    StoreOf <- MC_StoreI
    InstKind <- MC_KindI
    NKeys = 2
    PropChoices <- MC_Props2
    DupChoices <- MC_Dups
    Kinds <- MC_AllKinds
    Forms <- MC_AllForms
    MaxFrames = 2
    MaxTasks = 1
    MaxDepth = 2
    Panics = TRUE
    Discards = TRUE
    Emit = TRUE
VIEW cview
INVARIANTS InnermostWins NoTrace StackOK
PROPERTIES ExitRestores Isolation
ACTION_CONSTRAINT EmitReplay
CHECK_DEADLOCK FALSE
