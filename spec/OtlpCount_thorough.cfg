\* C14 OtlpCount thorough: every script of MC_Scripts_thorough (2 - 4 threads, <= 3 steps each over {discarded event, routed event}); the code's atomic counter; every interleaving. Exhaustive.
SPECIFICATION Spec
CONSTANTS
    Scripts <- MC_Scripts_thorough
    Atomic = TRUE
    Emit = TRUE
INVARIANTS TypeOK CountExact NeverAhead EmitReplay
CHECK_DEADLOCK FALSE
