\* C18 demonstration: the code as pinned (open_push without a new span id does not capture the active traceparent); TLC must find the hand-off counterexample.
SPECIFICATION Spec
CONSTANTS
    NThreads = 2
    MaxSpans = 2
    MaxFrames = 3
    MaxTasks = 0
    MaxDepth = 2
    Headers <- MC_NoHeaders
    InSampled = FALSE
    SnapshotOnPush = FALSE
    WithLazy = FALSE
    WithCurrent = TRUE
    FrameKinds <- MC_NoKinds
    Sampler = TRUE
    CtxForms <- MC_Forms
    Panics = TRUE
    Emit = FALSE
VIEW tview
INVARIANTS SamplerOncePerTrace DecisionGoverns UnsampledSilent SampledConsistent NoTraceNoParent
PROPERTIES Restored
ACTION_CONSTRAINT EmitReplay
CHECK_DEADLOCK FALSE
