\* X07 doc/code check: "fields beyond their maximum wrap into the next unit" applied to months beyond 12; the transcription of from_parts
\* (month index modulo 12 inside the same year, leap day added for any month > 2) is expected to violate it.
SPECIFICATION Spec
CONSTANTS
    Instants = {}
    Durations = {}
    Dates = {}
    Clocks = {}
    Overflows <- MC_Overflows
    Which = "quick"
    Emit = FALSE
INVARIANTS OverflowMonths
CHECK_DEADLOCK FALSE
