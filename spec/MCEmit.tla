------------------------------- MODULE MCEmit -------------------------------
(* Constants for Emit.tla: depth-bounded filter / destination trees and the
   scenario products that make up the explored configurations. *)
EXTENDS Emit

\* which scenario set this run explores (selected through an operator with a
\* parameter: TLC evaluates every zero-arity constant definition at start-up)
CONSTANT Which

MC_ClockT == 7

PredsAll == {"true", "false", "has_a", "has_b", "a_is_1", "a_is_11", "two_props",
             "ext_none", "ext_point", "ext_range", "ext_clock", "ext_inverted"}
\* a smaller set for the entry points added later
PredsFew == {"has_a", "a_is_11", "two_props", "ext_clock", "ext_range", "ext_inverted", "ext_empty"}
\* predicates that do not look at the extent (the only ones a span guard's filter may use)
PredsNoExt == {"true", "false", "has_a", "a_is_1", "a_is_11", "two_props"}
\* for the filter of a nested runtime
PredsNested == {"true", "false", "has_a", "a_is_11", "a_is_1", "two_props", "ext_none", "ext_clock", "ext_9"}

Absent == [op |-> "absent"]
FLeaf(p, id) == [op |-> "leaf", p |-> p, id |-> id]
ELeaf(id) == [op |-> "leaf", id |-> id]

\* filter trees of depth <= d over the predicates P; leaf ids b+1 ..
RECURSIVE FWidth(_)
FWidth(d) == IF d = 0 THEN 1 ELSE 2 * FWidth(d - 1)

RECURSIVE FT(_, _, _)
FT(P, d, b) ==
    IF d = 0 THEN {FLeaf(p, b + 1) : p \in P}
    ELSE LET sub == FT(P, d - 1, b)
             subR == FT(P, d - 1, b + FWidth(d - 1))
         IN sub \cup {[op |-> "none"]}
                \cup {[op |-> o, t |-> x] : o \in FWrap, x \in sub}
                \cup {[op |-> o, l |-> x, r |-> y] : o \in {"and", "or"}, x \in sub, y \in subR}

\* filter trees of depth 3 whose one side is restricted to depth 1 (thorough)
FT3(P, b) ==
    {[op |-> o, l |-> x, r |-> y] : o \in {"and", "or"}, x \in FT(P, 2, b), y \in FT(P, 1, b + FWidth(2))}
    \cup {[op |-> o, l |-> y, r |-> x] : o \in {"and", "or"}, x \in FT(P, 2, b + FWidth(1)), y \in FT(P, 1, b)}
    \cup {[op |-> o, t |-> x] : o \in FWrap, x \in FT(P, 2, b)}

\* the filters a wrapping may carry (leaf ids 200 + 4b + ..)
WrapFilters(b) ==
    LET i == 200 + 4 * b
    IN {FLeaf("true", i + 1), FLeaf("false", i + 1), FLeaf("has_a", i + 1),
        [op |-> "and", l |-> FLeaf("has_a", i + 1), r |-> [op |-> "erased", t |-> FLeaf("ext_point", i + 2)]],
        [op |-> "or", l |-> FLeaf("false", i + 1), r |-> FLeaf("a_is_11", i + 2)]}

\* the nested runtimes inside general destination trees (filter leaf ids 300 + 4b + ..)
RtCfgs(b) ==
    {[f |-> FLeaf("has_a", 300 + 4 * b + 1), amb |-> <<[k |-> "a", v |-> 21]>>, clock |-> 9],
     [f |-> FLeaf("false", 300 + 4 * b + 1), amb |-> <<>>, clock |-> None]}

\* erased: `&(dyn ErasedWrapping + Send + Sync)`, erased_local: `&dyn ErasedWrapping`
WForms == {"owned", "ref", "erased", "erased_local"}
WfOf(f) == IF f.op = "and" THEN "erased" ELSE IF f.op = "or" THEN "ref"
           ELSE IF f.p = "has_a" THEN "erased" ELSE IF f.p = "false" THEN "ref" ELSE "owned"
WfOfKind(k) == IF k = "drop" THEN "ref" ELSE IF k = "pass" THEN "erased" ELSE "owned"

RECURSIVE EWidth(_)
EWidth(d) == IF d = 0 THEN 1 ELSE 2 * EWidth(d - 1) + 1

\* destination trees of depth <= d; leaf ids b+1 ..
RECURSIVE ET(_, _)
ET(d, b) ==
    IF d = 0 THEN {ELeaf(b + 1)}
    ELSE LET sub == ET(d - 1, b)
             subR == ET(d - 1, b + EWidth(d - 1))
             subW == ET(d - 1, b + 1)
         IN sub \cup {[op |-> "none"]}
                \cup {[op |-> o, t |-> x] : o \in FWrap, x \in sub}
                \cup {[op |-> "and", l |-> x, r |-> y] : x \in sub, y \in subR}
                \* (the form of the wrapping follows from the filter / kind: no growth of the set;
                \*  scenario W crosses the forms)
                \cup {[op |-> "wrap", f |-> f, wf |-> WfOf(f), t |-> x] : f \in WrapFilters(b), x \in subW}
                \cup {[op |-> "wrapfn", kind |-> k, wf |-> WfOfKind(k), t |-> x] :
                         k \in {"drop", "pass", "prepend"}, x \in sub}
                \cup {[op |-> "rt", f |-> c.f, amb |-> c.amb, clock |-> c.clock, id |-> b + 1, t |-> x] :
                         c \in RtCfgs(b), x \in subW}

\* destination trees of depth 3 whose children are restricted (thorough)
ET3(b) ==
    LET two == ET(2, b)
        one == ET(1, b + EWidth(2))
    IN {[op |-> "and", l |-> x, r |-> y] : x \in two, y \in one}
       \cup {[op |-> "and", l |-> y, r |-> x] : x \in ET(2, b + EWidth(1)), y \in ET(1, b)}
       \cup {[op |-> o, t |-> x] : o \in {"erased", "opt", "arc"}, x \in two}
       \cup {[op |-> "wrap", f |-> f, wf |-> WfOf(f), t |-> x] : f \in WrapFilters(b), x \in ET(2, b + 1)}
       \cup {[op |-> "wrapfn", kind |-> "prepend", wf |-> "erased", t |-> x] : x \in two}
       \cup {[op |-> "rt", f |-> c.f, amb |-> c.amb, clock |-> c.clock, id |-> b + 1, t |-> x] :
                c \in RtCfgs(b), x \in ET(2, b + 1)}

KV(k, v) == [k |-> k, v |-> v]
Owns == {<<>>, <<KV("a", 1)>>, <<KV("b", 1)>>, <<KV("a", 1), KV("a", 2)>>, <<KV("a", 1), KV("b", 2)>>}
Ambients == {<<>>, <<KV("a", 11)>>, <<KV("b", 11)>>, <<KV("b", 11), KV("a", 12)>>}
\* the extent as an input class: absent, point, forward range, empty range, inverted range
Extents == {NoExtent, Point(5), Range(3, 5), Range(5, 5), Range(5, 3)}
Clocks == {None, MC_ClockT}

Config(own, x, am, cl, rtf, csf, em, entry) ==
    [own |-> own, extent |-> x, ambient |-> am, clock |-> cl, clock2 |-> cl, rtf |-> rtf, csf |-> csf,
     em |-> em, entry |-> entry, env |-> "plain"]

\* A scenario is a record of parameters; ScenSet turns it into configurations.
\* E: every event shape x one leaf predicate as the effective filter (runtime's, or
\*    call-site with a rejecting runtime filter) x one entry: does the filter see the
\*    fully built event, does the destination?
\* F: one set of filter trees x ambient sets, as runtime or call-site filter
\* D: destination trees x own/ambient x accepting / rejecting filter x entry
ScenSet(s) ==
    CASE s.kind = "E" ->
            {Config(o, x, am, cl,
                    IF s.cs THEN FLeaf("false", 1) ELSE FLeaf(s.p, 1),
                    IF s.cs THEN FLeaf(s.p, 101) ELSE Absent,
                    ELeaf(1), s.entry) :
                o \in Owns, x \in Extents, am \in Ambients, cl \in Clocks}
      [] s.kind = "F" ->
            {Config(<<KV("a", 1)>>, NoExtent, am, MC_ClockT,
                    IF s.cs THEN FLeaf(s.rp, 1) ELSE f,
                    IF s.cs THEN f ELSE Absent,
                    ELeaf(1), s.entry) :
                f \in (IF s.d = 3 THEN FT3(s.preds, IF s.cs THEN 100 ELSE 0)
                       ELSE FT(s.preds, s.d, IF s.cs THEN 100 ELSE 0)),
                am \in s.ambs}
      \* R: a nested runtime (every filter predicate x ambient x clock) over a few destination
      \*    trees x events with / without extent, outer ambient, outer clock
      [] s.kind = "R" ->
            {Config(o, x, am, cl, FLeaf("true", 1), Absent,
                    [op |-> "rt", f |-> FLeaf(s.p, 301), amb |-> s.amb, clock |-> s.clock, id |-> 1, t |-> e],
                    s.entry) :
                o \in {<<>>, <<KV("a", 1)>>}, x \in {NoExtent, Point(5)}, am \in {<<>>, <<KV("a", 11)>>},
                cl \in Clocks,
                e \in {ELeaf(2), [op |-> "and", l |-> ELeaf(2), r |-> [op |-> "wrapfn", kind |-> "prepend", wf |-> "ref", t |-> ELeaf(3)]],
                       [op |-> "wrap", f |-> FLeaf("a_is_11", 205), wf |-> "erased", t |-> ELeaf(2)]}}
      \* G: span guards: the clock's two readings forward / equal / backwards / no clock, filters
      \*    that do not look at the extent, a destination behind a wrapping that does
      [] s.kind = "G" ->
            {[Config(o, NoExtent, am, cl, FLeaf(s.p, 1), Absent, e, s.entry) EXCEPT !.clock2 = c2] :
                o \in (IF s.entry = "span_macro" THEN {<<>>} ELSE {<<>>, <<KV("a", 1)>>}),
                am \in {<<>>, <<KV("a", 11)>>}, cl \in Clocks, c2 \in {3, 7, 9},
                e \in {ELeaf(1),
                       [op |-> "and", l |-> ELeaf(1),
                        r |-> [op |-> "wrap", f |-> FLeaf(s.wp, 205), wf |-> "ref", t |-> ELeaf(2)]]}}
      \* W: the forms: every wrapping form x every wrapping; fn-pointer leaves; filter::always();
      \*    in place of the corresponding closure / by-value forms
      [] s.kind = "W" ->
            {Config(o, Point(5), am, MC_ClockT, f, Absent, e, s.entry) :
                o \in {<<>>, <<KV("a", 1)>>}, am \in {<<>>, <<KV("a", 11)>>},
                f \in {FLeaf("true", 1), [op |-> "fnleaf", p |-> "has_a", id |-> 1], [op |-> "always"],
                       [op |-> "and", l |-> [op |-> "always"], r |-> [op |-> "fnleaf", p |-> "a_is_11", id |-> 2]],
                       [op |-> "or", l |-> FLeaf("false", 1), r |-> [op |-> "erased", t |-> [op |-> "always"]]]},
                e \in {[op |-> "wrap", f |-> wfl, wf |-> w, t |-> ELeaf(2)] : wfl \in WrapFilters(0), w \in WForms}
                      \cup {[op |-> "wrapfn", kind |-> k, wf |-> w, t |-> ELeaf(2)] :
                               k \in {"drop", "pass", "prepend"}, w \in WForms}
                      \cup {[op |-> "fnleaf", id |-> 1],
                            [op |-> "and", l |-> ELeaf(1), r |-> [op |-> "erased", t |-> [op |-> "fnleaf", id |-> 2]]]}}
      \* V: the forms in which the runtime holds its context, clock and rng x events with / without
      \*    extent x every ambient set x clock x filters that see the ambient properties and the clock
      [] s.kind = "V" ->
            {[Config(o, x, am, cl, FLeaf(p, 1), Absent, ELeaf(1), s.entry) EXCEPT !.env = ev,
                                                                               !.clock2 = IF s.entry \in SpanGuards THEN 9 ELSE cl] :
                o \in (IF s.entry = "span_macro" THEN {<<>>} ELSE {<<>>, <<KV("a", 1)>>}),
                x \in (IF s.entry \in SpanGuards THEN {NoExtent} ELSE {NoExtent, Point(5)}),
                am \in Ambients, cl \in Clocks,
                p \in (IF s.entry \in SpanGuards THEN {"has_a", "a_is_11"} ELSE {"has_a", "a_is_11", "ext_clock"}),
                ev \in EnvForms}
            \cup {[Config(o, x, <<>>, None, FLeaf(p, 1), Absent, ELeaf(1), s.entry) EXCEPT !.env = ev] :
                o \in (IF s.entry = "span_macro" THEN {<<>>} ELSE {<<>>, <<KV("a", 1)>>}),
                x \in (IF s.entry \in SpanGuards THEN {NoExtent} ELSE {NoExtent, Point(5)}),
                p \in {"has_a", "ext_none"} \ (IF s.entry \in SpanGuards THEN {"ext_none"} ELSE {}),
                ev \in EnvAbsent}
      [] s.kind = "D" ->
            {Config(s.own, Point(5), s.amb, MC_ClockT, FLeaf(s.p, 1), Absent, e, s.entry) :
                e \in (IF s.d = 3 THEN ET3(0) ELSE ET(s.d, 0))}

MacroEntries == {"macro", "macro_evt", "macro_lvl", "evt_macro"}
AllEntries == (Pipeline \ SpanGuards) \cup {"direct"}
NewEntries == {"macro_lvl", "evt_macro", "span_evt", "metric_evt", "rt_with", "rt_map"}

ScensG ==
    {[kind |-> "G", p |-> p, wp |-> wp, entry |-> en] :
        p \in PredsNoExt, wp \in {"ext_inverted", "ext_empty", "ext_range"}, en \in SpanGuards}

ScensE(Preds, Entries) ==
    {[kind |-> "E", p |-> p, entry |-> en, cs |-> FALSE] : p \in Preds, en \in Entries}
    \cup {[kind |-> "E", p |-> p, entry |-> en, cs |-> TRUE] : p \in Preds, en \in Entries \cap MacroEntries}

ScensF(preds, d, ambs, Entries) ==
    {[kind |-> "F", preds |-> preds, d |-> d, ambs |-> ambs, entry |-> en, cs |-> FALSE, rp |-> "true"] :
        en \in Entries}
    \cup {[kind |-> "F", preds |-> preds, d |-> d, ambs |-> ambs, entry |-> en, cs |-> TRUE, rp |-> rp] :
        en \in Entries \cap MacroEntries, rp \in {"true", "false"}}

ScensR(Entries) ==
    {[kind |-> "R", p |-> p, amb |-> am, clock |-> cl, entry |-> en] :
        p \in PredsNested, am \in {<<>>, <<KV("a", 21)>>, <<KV("b", 21)>>}, cl \in {None, 9}, en \in Entries}

ScensW(Entries) == {[kind |-> "W", entry |-> en] : en \in Entries}

ScensV(Entries) == {[kind |-> "V", entry |-> en] : en \in Entries}

ScensD(d, Entries) ==
    \* (new_span! takes its properties at compile time: no own properties there)
    {sc \in {[kind |-> "D", d |-> d, own |-> o, amb |-> am, p |-> p, entry |-> en] :
                o \in {<<>>, <<KV("a", 1)>>}, am \in {<<>>, <<KV("a", 11)>>}, p \in {"true", "false"},
                en \in Entries} :
        sc.entry = "span_macro" => sc.own = <<>>}

ScensFor(w) ==
    CASE w = "tiny" ->
            ScensE({"has_a", "ext_clock"}, AllEntries)
            \cup ScensF({"true", "false"}, 1, {<<>>}, {"rt", "macro"})
            \cup ScensD(1, {"rt", "direct"})
      [] w = "quick" ->
            ScensE(PredsAll, {"rt", "macro", "macro_evt", "direct"})
            \cup ScensE(PredsFew, {"core", "rt_as_emitter"} \cup NewEntries)
            \cup ScensG
            \cup ScensW({"rt", "direct", "macro"})
            \cup ScensV({"rt", "core", "rt_as_emitter", "macro", "rt_map", "span_guard"})
            \cup ScensF({"true", "false"}, 2, {<<>>}, {"rt", "macro"})
            \cup ScensF({"true", "false", "has_b", "ext_clock"}, 1, {<<>>, <<KV("b", 11)>>}, {"core", "macro_evt"})
            \cup ScensD(2, {"rt", "direct", "macro"})
            \cup ScensD(1, {"macro_evt", "core", "rt_as_emitter"} \cup NewEntries \cup SpanGuards)
            \cup ScensR({"rt", "direct"})
      [] w = "thorough" ->
            ScensE(PredsAll \cup {"ext_empty"}, AllEntries)
            \cup ScensG
            \cup ScensW(AllEntries)
            \cup ScensV(Pipeline)
            \cup ScensD(1, SpanGuards)
            \cup ScensF({"true", "false", "has_b"}, 2, {<<>>, <<KV("b", 11)>>}, {"rt", "macro", "macro_evt"})
            \cup ScensF(PredsAll, 1, {<<>>, <<KV("b", 11)>>}, {"core", "rt_as_emitter", "macro"})
            \cup ScensF({"true", "false"}, 3, {<<>>}, {"rt"})
            \cup ScensD(2, AllEntries)
            \cup ScensD(3, {"rt", "direct"})
            \cup ScensR(AllEntries)

MC_Scens == ScensFor(Which)
MC_Scen(s) == ScenSet(s)
=============================================================================
