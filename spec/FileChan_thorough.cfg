\* C09 FileChan thorough: capacity 3, every sequence of <= 13 operations over {send, take (the worker becomes busy), finish}; the code's clear. Exhaustive.
SPECIFICATION Spec
CONSTANTS
    Capacity = 3
    MaxOps = 13
    LazyClear = FALSE
    Emit = FALSE
VIEW view
INVARIANTS TypeOK LenRefines PendingBounded StoreBounded StoreIsPending
CHECK_DEADLOCK FALSE
