-------------------------------- MODULE Ctxt --------------------------------
(***************************************************************************)
(* C03 - ambient context is a per-thread stack; frames leave no trace.     *)
(*                                                                         *)
(* Level A (the statement): every frame has `logical` properties fixed at  *)
(* creation (push: what was ambient for the creating thread overlaid by    *)
(* its own; root: its own; disabled/current: what was ambient);            *)
(* Visible(t, s) is the `logical` of the innermost frame of storage s that *)
(* thread t has entered, else nothing.  Visible is the ONLY oracle: it is  *)
(* what the REPLAY lines predict for Ctxt::with_current.                   *)
(*                                                                         *)
(* Level B (the code, src/platform/thread_local_ctxt.rs + src/frame.rs):   *)
(* `act[t][s]` is the thread-local ACTIVE map, `held` is what a frame      *)
(* object stores; open_push snapshots act and overlays, open_root stores   *)
(* only the props, enter and exit are both a swap of held with act.        *)
(* TLC shows B refines A (InnermostWins, NoTrace, ExitRestores, Isolation).*)
(*                                                                         *)
(* The whole state is one record `cx` and the operations are functions on  *)
(* it (CxOpen, CxEnter, CxPop, ...) so that Span.tla can compose them.     *)
(*                                                                         *)
(* A program is well nested by construction: only the top entry of a       *)
(* thread's stack can be left.  Frames and tasks live in one table that    *)
(* every thread can reach, so moving a frame or a task to another thread   *)
(* is simply another thread entering / polling it.                         *)
(***************************************************************************)
EXTENDS Naturals, Sequences, FiniteSets, TLC, Json

CONSTANTS
    NThreads,     \* threads are 1..NThreads
    StoreOf,      \* sequence: context instance -> storage id (shared() instances alias 0)
    InstKind,     \* sequence: how the instance is obtained: "new" | "shared" | "default" | "setup"
                  \* | "empty" (emit::Empty used as a Ctxt) | "none" (Option::<C>::None)
                  \* | "tp" (emit_traceparent::TraceparentCtxt<ThreadLocalCtxt>, a wrapper with storage
                  \*   of its own that forwards every frame operation to the wrapped context)
                  \* | "made" (ThreadLocalCtxt::new() / default() called DURING the program by one of
                  \*   its threads - action Make; every other kind exists before the program starts,
                  \*   constructed by the driver).  Where an instance is constructed is a placement of
                  \*   a program fragment onto a thread like any other: distinct instances never alias,
                  \*   whichever threads made them and wherever they are used afterwards
                  \* (ThreadLocalCtxt::new(), ::shared(), ::default(), the context of a runtime
                  \* built by emit::setup()...init_slot(fresh slot)); only "shared" may alias
    NKeys,        \* property keys are 1..NKeys; a property map is a tuple, 0 = absent
    PropChoices,  \* property maps offered to Open (keys are distinct by construction); may contain the
                  \* EMPTY map: a root frame of it hides everything, a pushed one changes nothing
    DupChoices,   \* property SETS WITH DUPLICATE KEYS offered to Open: sequences of <<key, value>> pairs.
                  \* Within one pushed set the first value of a key wins (C02); the set as a whole then
                  \* overlays the snapshot (push) or stands alone (root).  ({} = none offered)
    Kinds,        \* subset of {"push", "root", "disabled", "current"}
    Forms,        \* subset of {"guard", "call"}: how a frame is entered synchronously
    MaxFrames, MaxTasks, MaxDepth,
    Panics,       \* BOOLEAN: include panic unwinding
    Discards,     \* BOOLEAN: include dropping idle frames / tasks
    Emit          \* BOOLEAN: print one REPLAY line per transition

Threads == 1..NThreads
Insts == 1..Len(StoreOf)
ASSUME Len(InstKind) = Len(StoreOf)
ASSUME \A i, j \in 1..Len(StoreOf) :
          (i # j /\ StoreOf[i] = StoreOf[j]) => (InstKind[i] = "shared" /\ InstKind[j] = "shared" /\ StoreOf[i] = 0)
Stores == {StoreOf[c] : c \in Insts}
Frames == 1..MaxFrames
Tasks == 1..MaxTasks
NoProps == [k \in 1..NKeys |-> 0]
Overlay(base, p) == [k \in 1..NKeys |-> IF p[k] # 0 THEN p[k] ELSE base[k]]

VARIABLES
    cx,      \* [fr, tk, stk, act]
    hist     \* the program so far with the predicted observation after every step

cvars == <<cx, hist>>
cview == cx

NoFrame(st) == [st |-> st, inst |-> 0, kind |-> "", logical |-> NoProps, held |-> NoProps]
NoTask(st) == [st |-> st, f |-> 0]

CxInit == [fr  |-> [f \in Frames |-> NoFrame("none")],
           tk  |-> [k \in Tasks |-> NoTask("none")],
           stk |-> [t \in Threads |-> <<>>],
           act |-> [t \in Threads |-> [s \in Stores |-> NoProps]],
           \* the thread that constructed the instance: 0 = not constructed yet, NThreads + 1 = the driver
           made |-> [i \in Insts |-> IF InstKind[i] = "made" THEN 0 ELSE NThreads + 1]]

StoreOfFrame(c, f) == StoreOf[c.fr[f].inst]

-----------------------------------------------------------------------------
(* Level A *)
SetMax(S) == CHOOSE x \in S : \A y \in S : y <= x
SetMin(S) == CHOOSE x \in S : \A y \in S : x <= y

EntriesOf(c, t, s) == {i \in 1..Len(c.stk[t]) : StoreOfFrame(c, c.stk[t][i].f) = s}

Visible(c, t, s) ==
    IF EntriesOf(c, t, s) = {} THEN NoProps
    ELSE c.fr[c.stk[t][SetMax(EntriesOf(c, t, s))].f].logical

\* What every thread observes through every context instance.  "Any point of any program"
\* includes the inside of callbacks: the harness takes the observation of the acting thread
\* directly, nested (inside with_current(|outer| ..): another with_current, a frame opened
\* there, an event emitted there) and after a panic raised inside a with_current / Frame::with
\* callback and caught on the spot - all of them must show Visible; none is a state change.
Obs(c) == [t \in Threads |-> [i \in Insts |-> Visible(c, t, StoreOf[i])]]

-----------------------------------------------------------------------------
(* Operations (functions on the state record) *)
FreeFrames(c) == {f \in Frames : c.fr[f].st = "none"}
FreeTasks(c) == {k \in Tasks : c.tk[k].st = "none"}
NextFrame(c) == SetMin(FreeFrames(c))
NextTask(c) == SetMin(FreeTasks(c))
Top(c, t) == c.stk[t][Len(c.stk[t])]

\* Frame::push / root / disabled / current on thread t through instance i
CxOpen(c, t, i, kind, props) ==
    LET s == StoreOf[i]
        vis == Visible(c, t, s)         \* level A
        amb == c.act[t][s]              \* level B: current(self.id)
    IN IF InstKind[i] \in {"empty", "none"}
       \* a context that stores nothing (Empty as Ctxt, Option::None): frames can be opened,
       \* entered and left like any other, and nothing is ever visible through it
       THEN [c EXCEPT !.fr[NextFrame(c)] =
               [st |-> "idle", inst |-> i, kind |-> kind, logical |-> NoProps, held |-> NoProps]]
       ELSE
       [c EXCEPT !.fr[NextFrame(c)] =
          [st |-> "idle", inst |-> i, kind |-> kind,
           logical |-> CASE kind = "push" -> Overlay(vis, props)
                         [] kind = "root" -> props
                         [] OTHER -> vis,
           held |-> CASE kind = "push" -> Overlay(amb, props)
                      [] kind = "root" -> props
                      [] OTHER -> amb]]

\* Ctxt::enter: swap the frame with the thread's slot
CxEnter(c, t, f, form, k) ==
    LET s == StoreOfFrame(c, f) IN
    [c EXCEPT !.fr[f].st = "in",
              !.fr[f].held = c.act[t][s],
              !.act[t][s] = c.fr[f].held,
              !.stk[t] = Append(@, [f |-> f, form |-> form, k |-> k, before |-> c.act[t][s]])]

\* Ctxt::exit of the top entry: swap back; what becomes of the frame depends on the form
AfterExit(form) == IF form = "guard" THEN "idle" ELSE IF form = "yield" THEN "task" ELSE "dead"

CxPop(c, t, how) ==
    LET e == Top(c, t)
        f == e.f
        s == StoreOfFrame(c, f)
        st == AfterExit(how)
        swapped == [c EXCEPT !.act[t][s] = c.fr[f].held,
                             !.fr[f].held = c.act[t][s],
                             !.fr[f].st = st,
                             !.stk[t] = SubSeq(@, 1, Len(@) - 1)]
    IN IF st = "dead" THEN [swapped EXCEPT !.fr[f] = NoFrame("dead")] ELSE swapped

\* unwinding: every guard on the thread's stack is dropped, innermost first
RECURSIVE CxUnwind(_, _)
CxUnwind(c, t) ==
    IF c.stk[t] = <<>> THEN c
    ELSE LET e == Top(c, t)
             c1 == CxPop(c, t, IF e.form = "guard" THEN "guard" ELSE "dead")
             c2 == IF e.form = "poll" THEN [c1 EXCEPT !.tk[e.k] = NoTask("done")] ELSE c1
         IN CxUnwind(c2, t)

-----------------------------------------------------------------------------
\* (an instance that does not exist yet cannot be observed: `made` tells the harness which ones do)
Log(rec) == hist' = Append(hist, rec @@ [exp |-> Obs(cx'), made |-> cx'.made])

Init ==
    /\ cx = CxInit
    /\ hist = <<>>

\* ThreadLocalCtxt::new() / default() on thread t: instance i exists from now on (and is used by
\* every thread: the type is Send + Sync + Copy)
Make(t, i) ==
    /\ cx.made[i] = 0
    /\ cx' = [cx EXCEPT !.made[i] = t]
    /\ Log([op |-> "make", t |-> t, s |-> StoreOf[i], c |-> i])

Open(t, i, kind, props) ==
    /\ cx.made[i] # 0
    /\ FreeFrames(cx) # {}
    /\ cx' = CxOpen(cx, t, i, kind, props)
    /\ Log([op |-> "open", t |-> t, s |-> StoreOf[i], f |-> NextFrame(cx), c |-> i, kind |-> kind,
            props |-> props])

\* the property map a sequence of pairs denotes: the first value of every key
EffProps(pairs) ==
    [k \in 1..NKeys |->
        IF \E n \in 1..Len(pairs) : pairs[n][1] = k
        THEN pairs[SetMin({n \in 1..Len(pairs) : pairs[n][1] = k})][2] ELSE 0]

\* Frame::push / root of a property set that names a key more than once
OpenDup(t, i, kind, pairs) ==
    /\ cx.made[i] # 0
    /\ FreeFrames(cx) # {}
    /\ cx' = CxOpen(cx, t, i, kind, EffProps(pairs))
    /\ Log([op |-> "open", t |-> t, s |-> StoreOf[i], f |-> NextFrame(cx), c |-> i, kind |-> kind,
            props |-> EffProps(pairs), pairs |-> pairs])

Enter(t, f, form) ==
    /\ cx.fr[f].st = "idle"
    /\ Len(cx.stk[t]) < MaxDepth
    /\ cx' = CxEnter(cx, t, f, form, 0)
    /\ Log([op |-> "enter", t |-> t, s |-> StoreOfFrame(cx, f), f |-> f, form |-> form])

Exit(t) ==
    /\ cx.stk[t] # <<>>
    /\ Top(cx, t).form \in {"guard", "call"}
    /\ cx' = CxPop(cx, t, Top(cx, t).form)
    /\ Log([op |-> "exit", t |-> t, s |-> StoreOfFrame(cx, Top(cx, t).f), f |-> Top(cx, t).f])

\* Frame::with: enter, look, exit in one go; the closure sees the frame's properties
With(t, f) ==
    /\ cx.fr[f].st = "idle"
    /\ Len(cx.stk[t]) < MaxDepth
    /\ cx' = cx
    /\ Log([op |-> "with", t |-> t, s |-> StoreOfFrame(cx, f), f |-> f, sees |-> cx.fr[f].logical])

\* Frame::in_future: the frame now belongs to a task
Spawn(t, f) ==
    /\ cx.fr[f].st = "idle"
    /\ FreeTasks(cx) # {}
    /\ cx' = [cx EXCEPT !.fr[f].st = "task", !.tk[NextTask(cx)] = [st |-> "idle", f |-> f]]
    /\ Log([op |-> "spawn", t |-> t, s |-> StoreOfFrame(cx, f), f |-> f, k |-> NextTask(cx)])

Poll(t, k) ==
    /\ cx.tk[k].st = "idle"
    /\ Len(cx.stk[t]) < MaxDepth
    /\ cx' = [CxEnter(cx, t, cx.tk[k].f, "poll", k) EXCEPT !.tk[k].st = "run"]
    /\ Log([op |-> "poll", t |-> t, s |-> StoreOfFrame(cx, cx.tk[k].f), k |-> k])

\* the inner future returns Pending: the frame is exited until the next poll
Yield(t) ==
    /\ cx.stk[t] # <<>>
    /\ Top(cx, t).form = "poll"
    /\ cx' = [CxPop(cx, t, "yield") EXCEPT !.tk[Top(cx, t).k].st = "idle"]
    /\ Log([op |-> "yield", t |-> t, s |-> StoreOfFrame(cx, Top(cx, t).f), k |-> Top(cx, t).k])

\* the inner future returns Ready
Complete(t) ==
    /\ cx.stk[t] # <<>>
    /\ Top(cx, t).form = "poll"
    /\ cx' = [CxPop(cx, t, "done") EXCEPT !.tk[Top(cx, t).k] = NoTask("done")]
    /\ Log([op |-> "complete", t |-> t, s |-> StoreOfFrame(cx, Top(cx, t).f), k |-> Top(cx, t).k])

\* A frame that is not entered is dropped by thread t without ever being entered again: the
\* Frame value is dropped (close), or its raw parts are (an erased frame's own Drop), or closed
\* by hand.  It leaves no trace - and nothing may be leaked (the harness counts live frames).
Discard(t, f) ==
    /\ Discards
    /\ cx.fr[f].st = "idle"
    /\ cx' = [cx EXCEPT !.fr[f] = NoFrame("dead")]
    /\ Log([op |-> "discard", t |-> t, s |-> StoreOfFrame(cx, f), f |-> f])

\* a task (frame-wrapped future) that is not being polled is dropped, polled before or not
DropTask(t, k) ==
    /\ Discards
    /\ cx.tk[k].st = "idle"
    /\ cx' = [cx EXCEPT !.fr[cx.tk[k].f] = NoFrame("dead"), !.tk[k] = NoTask("done")]
    /\ Log([op |-> "droptask", t |-> t, s |-> StoreOfFrame(cx, cx.tk[k].f), k |-> k])

\* a panic at the current program point of t, caught below everything t has entered
Panic(t) ==
    /\ Panics
    /\ cx.stk[t] # <<>>
    /\ cx' = CxUnwind(cx, t)
    /\ Log([op |-> "panic", t |-> t, s |-> 0])

Next ==
    \/ \E t \in Threads, i \in Insts : Make(t, i)
    \/ \E t \in Threads, i \in Insts, kind \in Kinds \ {"current"}, p \in PropChoices :
          Open(t, i, kind, p)
    \/ \E t \in Threads, i \in Insts : "current" \in Kinds /\ Open(t, i, "current", NoProps)
    \/ \E t \in Threads, i \in Insts, kind \in Kinds \cap {"push", "root"}, d \in DupChoices :
          OpenDup(t, i, kind, d)
    \/ \E t \in Threads, f \in Frames, form \in Forms : Enter(t, f, form)
    \/ \E t \in Threads : Exit(t)
    \/ \E t \in Threads, f \in Frames : With(t, f)
    \/ \E t \in Threads, f \in Frames : Spawn(t, f)
    \/ \E t \in Threads, k \in Tasks : Poll(t, k)
    \/ \E t \in Threads : Yield(t)
    \/ \E t \in Threads : Complete(t)
    \/ \E t \in Threads : Panic(t)
    \/ \E t \in Threads, f \in Frames : Discard(t, f)
    \/ \E t \in Threads, k \in Tasks : DropTask(t, k)

Spec == Init /\ [][Next]_cvars

-----------------------------------------------------------------------------
(* Properties *)

\* level B shows exactly what the statement says is visible
InnermostWins == \A t \in Threads, s \in Stores : cx.act[t][s] = Visible(cx, t, s)

\* a frame that is not entered stores exactly its logical properties
\* (so re-entering it, moving it and wrapping it in a future are safe)
NoTrace == \A f \in Frames : cx.fr[f].st \in {"idle", "task"} => cx.fr[f].held = cx.fr[f].logical

\* leaving frames (exit, yield, completion, unwinding) restores what the thread saw
\* before the outermost of the frames that were left
ExitRestores ==
    [][\A t \in Threads :
        Len(cx'.stk[t]) < Len(cx.stk[t]) =>
          \A s \in Stores :
            LET popped == {i \in (Len(cx'.stk[t]) + 1)..Len(cx.stk[t]) :
                              StoreOfFrame(cx, cx.stk[t][i].f) = s}
            IN cx'.act[t][s] = IF popped = {} THEN cx.act[t][s]
                               ELSE cx.stk[t][SetMin(popped)].before]_cvars

\* a step of thread t on storage s changes what is visible for (t, s) only
Isolation ==
    [][Len(hist') > 0 =>
        LET e == hist'[Len(hist')] IN
        \A t \in Threads, s \in Stores :
            cx'.act[t][s] # cx.act[t][s] => (t = e.t /\ (s = e.s \/ e.op = "panic"))]_cvars

StackOK ==
    \A t \in Threads : \A i \in 1..Len(cx.stk[t]) :
        /\ cx.fr[cx.stk[t][i].f].st = "in"
        /\ \A u \in Threads : \A j \in 1..Len(cx.stk[u]) :
              (cx.stk[u][j].f = cx.stk[t][i].f) => (u = t /\ j = i)

-----------------------------------------------------------------------------
EmitReplay == Emit => PrintT(<<"REPLAY", ToJson([steps |-> hist'])>>)
=============================================================================
