\* C02 views: the Extent view (point, range; and by source: ToExtent of Timestamp / Range<Timestamp> / Range<Option<Timestamp>> with
\* every combination of bounds / Option / &, the extent of Span / Metric / Event carriers built with new / with_extent), the SpanCtxt view (every subset of trace id / span id / parent), the
\* ThreadLocalCtxt snapshot (1 frame; 2-3 nested frames with overlapping keys, every resolution), the property views of
\* Span and Metric events over 7 user property lists (some repeating evt_kind / span_name / metric_* keys);
\* alone, under dedup / erasure, joined (both sides) with leaves repeating their keys, one more level (9 unary nodes, and_props).
\* Every collection is replayed under the 6 key storage forms of Props.tla (KeyForms) with lookup keys separate / from the same buffer / prefix slices of enumerated keys.
\* Map carriers (BTreeMap / HashMap, key type &str / String / Str by key storage form) over keys of mixed lengths whose byte order and length-first order differ.
\* The Current of TraceparentCtxt<ThreadLocalCtxt> without an active sampled traceparent (10 leaves: id keys pushed on the wrapped context / through the wrapper), observed bare and erased inside with_current.
SPECIFICATION Spec
CONSTANTS
    KeyOrder <- MC_KeyOrder
    IdOrder <- MC_IdOrder
    NModes <- MC_NModes
    Seeds <- MC_Seeds
    Rights <- MC_Rights
    Wraps <- MC_Wraps
    SpanPrefix <- MC_SpanPrefix
    MetricPrefix <- MC_MetricPrefix
    Which = "views"
    GrowLeaves <- MC_GrowLeaves
    MaxGrow = 0
    MacroGet = "bsearch_scan"
    Emit = TRUE
INVARIANTS GetIsFirst DedupOnceFirst UniqueClaimSound BreakStops EnumIsSpec SerIsEnum
ACTION_CONSTRAINT EmitReplay
CHECK_DEADLOCK FALSE
