\* C02 views: the Extent view (point, range), the SpanCtxt view (every subset of trace id / span id / parent), the
\* ThreadLocalCtxt snapshot; alone, under dedup / erasure, joined (both sides) with leaves repeating their keys, one more level.
SPECIFICATION Spec
CONSTANTS
    KeyOrder <- MC_KeyOrder
    IdOrder <- MC_IdOrder
    NModes <- MC_NModes
    Seeds <- MC_Seeds
    Rights <- MC_Rights
    Extend <- MC_Extend
    Which = "views"
    GrowLeaves <- MC_GrowLeaves
    MaxGrow = 0
    MacroGet = "bsearch_scan"
    Emit = TRUE
INVARIANTS GetIsFirst DedupOnceFirst UniqueClaimSound BreakStops EnumIsSpec
ACTION_CONSTRAINT EmitReplay
CHECK_DEADLOCK FALSE
