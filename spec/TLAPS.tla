------------------------------- MODULE TLAPS --------------------------------

(* Backend pragmas. *)


(***************************************************************************)
(* Each of these pragmas can be cited with a BY or a USE.  The pragma that *)
(* is added to the context of an obligation most recently is the one whose *)
(* effects are triggered.                                                  *)
(***************************************************************************)

(***************************************************************************)
(* The following pragmas should be used only as a last resource.  They are *)
(* dependent upon the particular backend provers, and are unlikely to have *)
(* any effect if the set of backend provers changes.  Moreover, they are   *)
(* meaningless to a reader of the proof.                                   *)
(***************************************************************************)


(**************************************************************************)
(* Backend pragma: use the SMT solver for arithmetic.                     *)
(*                                                                        *)
(* This method exists under this name for historical reasons.             *)
(**************************************************************************)

SimpleArithmetic == TRUE (*{ by (prover:"smt3") }*)


(**************************************************************************)
(* Backend pragma: SMT solver                                             *)
(*                                                                        *)
(* This method translates the proof obligation to SMTLIB2. The supported  *)
(* fragment includes first-order logic, set theory, functions and         *)
(* records.                                                               *)
(* SMT calls the smt-solver with the default timeout of 5 seconds         *)
(* while SMTT(n) calls the smt-solver with a timeout of n seconds.        *)
(*                                                                        *)
(* SMTT also accepts a string argument of the form "rN" to bound the      *)
(* underlying Z3 solver by a deterministic `rlimit` budget instead of a    *)
(* wall-clock timeout, e.g. SMTT("r5"). N is a multiple of a fixed base    *)
(* resource count, so a small readable budget like "r5" is meaningful.     *)
(* Unlike a wall-clock timeout, an `rlimit` budget does not depend on CPU  *)
(* speed or load, so the proof's pass/fail outcome reproduces on any       *)
(* machine and every rerun (for a fixed Z3 build); how long it takes to    *)
(* consume the budget still varies by machine. This is Z3-specific.        *)
(**************************************************************************)

SMT == TRUE (*{ by (prover:"smt3") }*)
SMTT(X) == TRUE (*{ by (prover:"smt3"; timeout:@) }*)


(**************************************************************************)
(* Backend pragma: CVC4 SMT solver                                        *)
(*                                                                        *)
(* These methods translate the proof obligation to SMTLIB2 and call CVC4. *)
(**************************************************************************)

(* The CVC3* methods are here for backward compatibility. They call CVC4. *)
CVC3 == TRUE (*{ by (prover: "cvc33") }*)
CVC3T(X) == TRUE (*{ by (prover:"cvc33"; timeout:@) }*)

CVC4 == TRUE (*{ by (prover: "cvc33") }*)
CVC4T(X) == TRUE (*{ by (prover:"cvc33"; timeout:@) }*)


(**************************************************************************)
(* Backend pragma: Yices SMT solver                                       *)
(*                                                                        *)
(* This method translates the proof obligation to Yices native language.  *)
(**************************************************************************)

Yices == TRUE (*{ by (prover: "yices3") }*)
YicesT(X) == TRUE (*{ by (prover:"yices3"; timeout:@) }*)

(**************************************************************************)
(* Backend pragma: veriT SMT solver                                       *)
(*                                                                        *)
(* This method translates the proof obligation to SMTLIB2 and calls veriT.*)
(**************************************************************************)

veriT == TRUE (*{ by (prover: "verit") }*)
veriTT(X) == TRUE (*{ by (prover:"verit"; timeout:@) }*)

(**************************************************************************)
(* Backend pragma: Zipperposition solver                                  *)
(*                                                                        *)
(* This method translates the proof obligation to TPTP and                *)
(* calls Zipperposition.                                                  *)
(**************************************************************************)

Zipper == TRUE (*{ by (prover: "zipper") }*)
ZipperT(X) == TRUE (*{ by (prover:"zipper"; timeout:@) }*)

(**************************************************************************)
(* Backend pragma: Z3 SMT solver                                          *)
(*                                                                        *)
(* This method translates the proof obligation to SMTLIB2 and calls Z3.   *)
(* Z3 is used by default but you can also explicitly call it.             *)
(* Z3T(n) bounds Z3 by a wall-clock timeout of n seconds, while Z3T("rN")  *)
(* bounds it by a deterministic `rlimit` budget of N base units, which      *)
(* reproduces the same outcome on any machine (see SMTT).                   *)
(**************************************************************************)

Z3 == TRUE (*{ by (prover: "z33") }*)
Z3T(X) == TRUE (*{ by (prover:"z33"; timeout:@) }*)

(**************************************************************************)
(* Backend pragma: SPASS superposition prover                             *)
(*                                                                        *)
(* This method translates the proof obligation to the DFG format language *)
(* supported by the ATP SPASS. The translation is based on the SMT one.   *)
(**************************************************************************)

Spass == TRUE (*{ by (prover: "spass") }*)
SpassT(X) == TRUE (*{ by (prover:"spass"; timeout:@) }*)

(**************************************************************************)
(* Backend pragma: The PTL propositional linear time temporal logic       *)
(* prover.  It currently is the LS4 backend.                              *)
(*                                                                        *)
(* This method translates the negetation of the proof obligation to       *)
(* Seperated Normal Form (TRP++ format) and checks for unsatisfiability   *)
(**************************************************************************)

LS4 == TRUE (*{ by (prover: "ls4") }*)
LS4T(X) == TRUE (*{ by (prover: "ls4"; timeout:@) }*)
PTL == TRUE (*{ by (prover: "ls4") }*)

(**************************************************************************)
(* Backend pragma: Zenon with different timeouts (default is 10 seconds)  *)
(*                                                                        *)
(**************************************************************************)

Zenon == TRUE (*{ by (prover:"zenon") }*)
ZenonT(X) == TRUE (*{ by (prover:"zenon"; timeout:@) }*)

(********************************************************************)
(* Backend pragma: Isabelle with different timeouts and tactics     *)
(*  (default is 30 seconds/auto)                                    *)
(********************************************************************)

Isa == TRUE (*{ by (prover:"isabelle") }*)
IsaT(X) ==  TRUE (*{ by (prover:"isabelle"; timeout:@) }*)
IsaM(X) ==  TRUE (*{ by (prover:"isabelle"; tactic:@) }*)
IsaMT(X,Y) ==  TRUE (*{ by (prover:"isabelle"; tactic:@; timeout:@) }*)

(***************************************************************************)
(* The following theorem expresses the (useful implication of the) law of  *)
(* set extensionality, which can be written as                             *)
(*                                                                         *)
(*    THEOREM  \A S, T : (S = T) <=> (\A x : (x \in S) <=> (x \in T))      *)
(*                                                                         *)
(* Theorem SetExtensionality is sometimes required by the SMT backend for  *)
(* reasoning about sets. It is usually counterproductive to include        *)
(* theorem SetExtensionality in a BY clause for the Zenon or Isabelle      *)
(* backends. Instead, use the pragma IsaWithSetExtensionality to instruct  *)
(* the Isabelle backend to use the rule of set extensionality.             *)
(***************************************************************************)
IsaWithSetExtensionality == TRUE
           (*{ by (prover:"isabelle"; tactic:"(auto intro: setEqualI)")}*)

THEOREM SetExtensionality == \A S,T : (\A x : x \in S <=> x \in T) => S = T
OBVIOUS

(***************************************************************************)
(* The following theorem is needed to deduce NotInSetS \notin SetS from    *)
(* the definition                                                          *)
(*                                                                         *)
(*   NotInSetS == CHOOSE v : v \notin SetS                                 *)
(***************************************************************************)
THEOREM NoSetContainsEverything == \A S : \E x : x \notin S
OBVIOUS (*{by (isabelle "(auto intro: inIrrefl)")}*)
-----------------------------------------------------------------------------



(********************************************************************)
(********************************************************************)
(********************************************************************)


(********************************************************************)
(* Old versions of Zenon and Isabelle pragmas below                 *)
(* (kept for compatibility)                                         *)
(********************************************************************)


(**************************************************************************)
(* Backend pragma: Zenon with different timeouts (default is 10 seconds)  *)
(*                                                                        *)
(**************************************************************************)

SlowZenon == TRUE (*{ by (prover:"zenon"; timeout:20) }*)
SlowerZenon == TRUE (*{ by (prover:"zenon"; timeout:40) }*)
VerySlowZenon == TRUE (*{ by (prover:"zenon"; timeout:80) }*)
SlowestZenon == TRUE (*{ by (prover:"zenon"; timeout:160) }*)



(********************************************************************)
(* Backend pragma: Isabelle's automatic search ("auto")             *)
(*                                                                  *)
(* This pragma bypasses Zenon. It is useful in situations involving *)
(* essentially simplification and equational reasoning.             *)
(* Default imeout for all isabelle tactics is 30 seconds.           *)
(********************************************************************)
Auto == TRUE (*{ by (prover:"isabelle"; tactic:"auto") }*)
SlowAuto == TRUE (*{ by (prover:"isabelle"; tactic:"auto"; timeout:120) }*)
SlowerAuto == TRUE (*{ by (prover:"isabelle"; tactic:"auto"; timeout:480) }*)
SlowestAuto == TRUE (*{ by (prover:"isabelle"; tactic:"auto"; timeout:960) }*)

(********************************************************************)
(* Backend pragma: Isabelle's "force" tactic                        *)
(*                                                                  *)
(* This pragma bypasses Zenon. It is useful in situations involving *)
(* quantifier reasoning.                                            *)
(********************************************************************)
Force == TRUE (*{ by (prover:"isabelle"; tactic:"force") }*)
SlowForce == TRUE (*{ by (prover:"isabelle"; tactic:"force"; timeout:120) }*)
SlowerForce == TRUE (*{ by (prover:"isabelle"; tactic:"force"; timeout:480) }*)
SlowestForce == TRUE (*{ by (prover:"isabelle"; tactic:"force"; timeout:960) }*)

(***********************************************************************)
(* Backend pragma: Isabelle's "simplification" tactics                 *)
(*                                                                     *)
(* These tactics simplify the goal before running one of the automated *)
(* tactics. They are often necessary for obligations involving record  *)
(* or tuple projections. Use the SimplfyAndSolve tactic unless you're  *)
(* sure you can get away with just Simplification                      *)
(***********************************************************************)
SimplifyAndSolve        == TRUE
    (*{ by (prover:"isabelle"; tactic:"clarsimp auto?") }*)
SlowSimplifyAndSolve    == TRUE
    (*{ by (prover:"isabelle"; tactic:"clarsimp auto?"; timeout:120) }*)
SlowerSimplifyAndSolve  == TRUE
    (*{ by (prover:"isabelle"; tactic:"clarsimp auto?"; timeout:480) }*)
SlowestSimplifyAndSolve == TRUE
    (*{ by (prover:"isabelle"; tactic:"clarsimp auto?"; timeout:960) }*)

Simplification == TRUE (*{ by (prover:"isabelle"; tactic:"clarsimp") }*)
SlowSimplification == TRUE
    (*{ by (prover:"isabelle"; tactic:"clarsimp"; timeout:120) }*)
SlowerSimplification  == TRUE
    (*{ by (prover:"isabelle"; tactic:"clarsimp"; timeout:480) }*)
SlowestSimplification == TRUE
    (*{ by (prover:"isabelle"; tactic:"clarsimp"; timeout:960) }*)

(**************************************************************************)
(* Backend pragma: Isabelle's tableau prover ("blast")                    *)
(*                                                                        *)
(* This pragma bypasses Zenon and uses Isabelle's built-in theorem        *)
(* prover, Blast. It is almost never better than Zenon by itself, but     *)
(* becomes very useful in combination with the Auto pragma above. The     *)
(* AutoBlast pragma first attempts Auto and then uses Blast to prove what *)
(* Auto could not prove. (There is currently no way to use Zenon on the   *)
(* results left over from Auto.)                                          *)
(**************************************************************************)
Blast == TRUE (*{ by (prover:"isabelle"; tactic:"blast") }*)
SlowBlast == TRUE (*{ by (prover:"isabelle"; tactic:"blast"; timeout:120) }*)
SlowerBlast == TRUE (*{ by (prover:"isabelle"; tactic:"blast"; timeout:480) }*)
SlowestBlast == TRUE (*{ by (prover:"isabelle"; tactic:"blast"; timeout:960) }*)

AutoBlast == TRUE (*{ by (prover:"isabelle"; tactic:"auto, blast") }*)


(**************************************************************************)
(* Backend pragmas: multi-back-ends                                       *)
(*                                                                        *)
(* These pragmas just run a bunch of back-ends one after the other in the *)
(* hope that one will succeed. This saves time and effort for the user at *)
(* the expense of computation time.                                       *)
(**************************************************************************)

(* CVC3 goes first because it's bundled with TLAPS, then the other SMT
   solvers are unlikely to succeed if CVC3 fails, so we run zenon and
   Isabelle before them. *)
AllProvers == TRUE (*{
    by (prover:"cvc33")
    by (prover:"zenon")
    by (prover:"isabelle"; tactic:"auto")
    by (prover:"spass")
    by (prover:"smt3")
    by (prover:"yices3")
    by (prover:"verit")
    by (prover:"z33")
    by (prover:"isabelle"; tactic:"force")
    by (prover:"isabelle"; tactic:"(auto intro: setEqualI)")
    by (prover:"isabelle"; tactic:"clarsimp auto?")
    by (prover:"isabelle"; tactic:"clarsimp")
    by (prover:"isabelle"; tactic:"auto, blast")
  }*)
AllProversT(X) == TRUE (*{
    by (prover:"cvc33"; timeout:@)
    by (prover:"zenon"; timeout:@)
    by (prover:"isabelle"; tactic:"auto"; timeout:@)
    by (prover:"spass"; timeout:@)
    by (prover:"smt3"; timeout:@)
    by (prover:"yices3"; timeout:@)
    by (prover:"verit"; timeout:@)
    by (prover:"z33"; timeout:@)
    by (prover:"isabelle"; tactic:"force"; timeout:@)
    by (prover:"isabelle"; tactic:"(auto intro: setEqualI)"; timeout:@)
    by (prover:"isabelle"; tactic:"clarsimp auto?"; timeout:@)
    by (prover:"isabelle"; tactic:"clarsimp"; timeout:@)
    by (prover:"isabelle"; tactic:"auto, blast"; timeout:@)
  }*)

AllSMT == TRUE (*{
    by (prover:"cvc33")
    by (prover:"smt3")
    by (prover:"yices3")
    by (prover:"verit")
    by (prover:"z33")
  }*)
AllSMTT(X) == TRUE (*{
    by (prover:"cvc33"; timeout:@)
    by (prover:"smt3"; timeout:@)
    by (prover:"yices3"; timeout:@)
    by (prover:"verit"; timeout:@)
    by (prover:"z33"; timeout:@)
  }*)

AllIsa == TRUE (*{
    by (prover:"isabelle"; tactic:"auto")
    by (prover:"isabelle"; tactic:"force")
    by (prover:"isabelle"; tactic:"(auto intro: setEqualI)")
    by (prover:"isabelle"; tactic:"clarsimp auto?")
    by (prover:"isabelle"; tactic:"clarsimp")
    by (prover:"isabelle"; tactic:"auto, blast")
  }*)
AllIsaT(X) == TRUE (*{
    by (prover:"isabelle"; tactic:"auto"; timeout:@)
    by (prover:"isabelle"; tactic:"force"; timeout:@)
    by (prover:"isabelle"; tactic:"(auto intro: setEqualI)"; timeout:@)
    by (prover:"isabelle"; tactic:"clarsimp auto?"; timeout:@)
    by (prover:"isabelle"; tactic:"clarsimp"; timeout:@)
    by (prover:"isabelle"; tactic:"auto, blast"; timeout:@)
  }*)


(**************************************************************************)
(* The pragma ExpandEnabled invokes expansion of the operator ENABLED.    *)
(*                                                                        *)
(* The pragma ExpandCdot invokes expansion of the operator \cdot.         *)
(*                                                                        *)
(* The pragma AutoUSE invokes automated expansion of definitions,         *)
(* for both of ExpandEnabled and ExpandCdot, when each is present.        *)
(*                                                                        *)
(* The pragma Lambdify invokes expansion of the operators                 *)
(* ENABLED and \cdot to an intermediate form with bound VARIABLES,        *)
(* which is a form before introducing rigid quantifiers.                  *)
(* The pragma Lambdify is sound for occurrences of ENABLED and \cdot      *)
(* that are not nested.                                                   *)
(**************************************************************************)
ExpandENABLED == TRUE  (*{ by (prover:"expandenabled") }*)
ExpandCdot == TRUE  (*{ by (prover:"expandcdot") }*)
AutoUSE == TRUE  (*{ by (prover:"autouse") }*)
Lambdify == TRUE  (*{ by (prover:"lambdify") }*)
ENABLEDaxioms == TRUE  (*{ by (prover:"enabledaxioms") }*)
LevelComparison == TRUE  (*{ by (prover:"levelcomparison") }*)

(* The operators EnabledWrapper and CdotWrapper occur in an intermediate  *)
(* representation within TLAPM.                                           *)
EnabledWrapper(Op(_)) == FALSE
CdotWrapper(Op(_)) == FALSE

(***************************************************************************)
(* The following may be used in a `BY ONLY ThmName` for unit testing the   *)
(* triviality checks in TLAPM.                                             *)
(***************************************************************************)
Trivial == TRUE  (*{ by (prover:"trivial") }*)


=============================================================================

The material below is obsolete: the TLA proof rules below are superseded by
the PTL decision procedure, and their formulation is unsound for the semantics
of temporal reasoning that TLAPS adopts.

----------------------------------------------------------------------------
(***************************************************************************)
(*                           TEMPORAL LOGIC                                *)
(*                                                                         *)
(* The following rules are intended to be used when TLAPS handles temporal *)
(* logic.  They will not work now.  Moreover when temporal reasoning is    *)
(* implemented, these rules may be changed or omitted, and additional      *)
(* rules will probably be added.  However, they are included mainly so     *)
(* their names will be defined, preventing the use of identifiers that are *)
(* likely to produce name clashes with future versions of this module.     *)
(***************************************************************************)


(***************************************************************************)
(* The following proof rules (and their names) are from the paper "The     *)
(* Temporal Logic of Actions".                                             *)
(***************************************************************************)
THEOREM RuleTLA1 == ASSUME STATE P, STATE f,
                           P /\ (f' = f) => P'
                    PROVE  []P <=> P /\ [][P => P']_f

THEOREM RuleTLA2 == ASSUME STATE P, STATE Q, STATE f, STATE g,
                           ACTION A, ACTION B,
                           P /\ [A]_f => Q /\ [B]_g
                    PROVE  []P /\ [][A]_f => []Q /\ [][B]_g

THEOREM RuleINV1 == ASSUME STATE I, STATE F,  ACTION N,
                           I /\ [N]_F => I'
                    PROVE  I /\ [][N]_F => []I

THEOREM RuleINV2 == ASSUME STATE I, STATE f, ACTION N
                    PROVE  []I => ([][N]_f <=> [][N /\ I /\ I']_f)

THEOREM RuleWF1 == ASSUME STATE P, STATE Q, STATE f, ACTION N, ACTION A,
                          P /\ [N]_f => (P' \/ Q'),
                          P /\ <<N /\ A>>_f => Q',
                          P => ENABLED <<A>>_f
                   PROVE  [][N]_f /\ WF_f(A) => (P ~> Q)

THEOREM RuleSF1 == ASSUME STATE P, STATE Q, STATE f,
                          ACTION N, ACTION A, TEMPORAL F,
                          P /\ [N]_f => (P' \/ Q'),
                          P /\ <<N /\ A>>_f => Q',
                          []P /\ [][N]_f /\ []F => <> ENABLED <<A>>_f
                   PROVE  [][N]_f /\ SF_f(A) /\ []F => (P ~> Q)

(***************************************************************************)
(* The rules WF2 and SF2 in "The Temporal Logic of Actions" are obtained   *)
(* from the following two rules by the following substitutions: `.         *)
(*                                                                         *)
(*          ___        ___         _______________                         *)
(*      M <- M ,   g <- g ,  EM <- ENABLED <<M>>_g       .'                *)
(***************************************************************************)
THEOREM RuleWF2 == ASSUME STATE P, STATE f, STATE g, STATE EM,
                          ACTION A, ACTION B, ACTION N, ACTION M,
                          TEMPORAL F,
                          <<N /\ B>>_f => <<M>>_g,
                          P /\ P' /\ <<N /\ A>>_f /\ EM => B,
                          P /\ EM => ENABLED A,
                          [][N /\ ~B]_f /\ WF_f(A) /\ []F /\ <>[]EM => <>[]P
                   PROVE  [][N]_f /\ WF_f(A) /\ []F => []<><<M>>_g \/ []<>(~EM)

THEOREM RuleSF2 == ASSUME STATE P, STATE f, STATE g, STATE EM,
                          ACTION A, ACTION B, ACTION N, ACTION M,
                          TEMPORAL F,
                          <<N /\ B>>_f => <<M>>_g,
                          P /\ P' /\ <<N /\ A>>_f /\ EM => B,
                          P /\ EM => ENABLED A,
                          [][N /\ ~B]_f /\ SF_f(A) /\ []F /\ []<>EM => <>[]P
                   PROVE  [][N]_f /\ SF_f(A) /\ []F => []<><<M>>_g \/ <>[](~EM)


(***************************************************************************)
(* The following rule is a special case of the general temporal logic      *)
(* proof rule STL4 from the paper "The Temporal Logic of Actions".  The    *)
(* general rule is for arbitrary temporal formulas F and G, but it cannot  *)
(* yet be handled by TLAPS.                                                *)
(***************************************************************************)
THEOREM RuleInvImplication ==
  ASSUME STATE F, STATE G,
         F => G
  PROVE  []F => []G
PROOF OMITTED

(***************************************************************************)
(* The following rule is a special case of rule TLA2 from the paper "The   *)
(* Temporal Logic of Actions".                                             *)
(***************************************************************************)
THEOREM RuleStepSimulation ==
  ASSUME STATE I, STATE f, STATE g,
         ACTION M, ACTION N,
         I /\ I' /\ [M]_f => [N]_g
  PROVE  []I /\ [][M]_f => [][N]_g
PROOF OMITTED

(***************************************************************************)
(* The following may be used to invoke a decision procedure for            *)
(* propositional temporal logic.                                           *)
(***************************************************************************)
PropositionalTemporalLogic == TRUE
=============================================================================
