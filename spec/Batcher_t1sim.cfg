\* Batcher t1: s1 = send,send,try_send; s2 = blocking send (no timeout), send; f1 = blocking flush (no timeout); f2 = blocking flush (timeout 0); Cap 2, MaxRetry 10 (hard-coded by bounded()), <= 2 processor faults, AnyRemainder TRUE, receiver kill FALSE; idle spinning cut at 3 ms. Simulation (seeded random behaviours up to depth 60), one replay per behaviour.
SPECIFICATION Spec
CONSTANTS
    SenderOps <- T_SenderOps
    FlusherOps <- T_FlusherOps
    Cap = 2
    MaxRetry = 10
    MaxFail = 2
    AnyRemainder = TRUE
    NonEmptyRem = FALSE
    OutcomeSet = {"ok", "fail", "retry", "panic", "panicFut"}
    AllowKill = FALSE
    MaxIdleDelay = 500
    Emit = TRUE
CONSTRAINT IdleBound
INVARIANTS TypeOK Bounded Partition StatusConsistent TruncCounted FlushMeansDone FlushRetTruthful RetryBounded BackoffBounded CallbackOnce SendNeverWaits
ACTION_CONSTRAINT EmitAtEnd
CHECK_DEADLOCK FALSE
