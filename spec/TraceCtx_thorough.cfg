\* X04 context thorough: 2 threads, <= 3 frames, nesting <= 3, <= 7 operations; pushable traceparents {(1,1,01), (1,2,00), (2,1,03), (1,-,01), (-,-,fe)},
\* tracestates {"", "vendorname1=opaqueValue1", "v2=b,vendorname1=c"}, pairs {((1,1,01), "vendorname1=opaqueValue1"), ((2,1,03), "v2=b,vendorname1=c"), ((1,2,00), "")}; Frame::current. Exhaustive.
SPECIFICATION Spec
CONSTANTS
    NThreads = 2
    TPs <- TPsAll
    TSs = {0, 1, 2}
    Pairs <- PairsAll
    TidHex <- MC_TidHex
    SidHex <- MC_SidHex
    MaxFrames = 3
    MaxDepth = 3
    MaxOps = 7
    Emit = TRUE
VIEW view
INVARIANTS CurrentIsInnermost FrameCarries HeaderRoundTrip
PROPERTIES Restored ThreadsApart
ACTION_CONSTRAINT EmitReplay
CHECK_DEADLOCK FALSE
