----------------------------- MODULE MCPathAlg -----------------------------
EXTENDS PathAlg
\* a, aa (prefix-sharing sibling), b, _x (underscore start), é (two bytes)
MC_Segs == << <<"a">>, <<"a", "a">>, <<"b">>, <<"_", "x">>, <<"é">> >>
\* empty, digit start, single colon inside, space, glob, lone colon, digit inside (fine), underscore only (the
\* statement is silent), brace
MC_BadSegs == << <<>>, <<"1", "a">>, <<"a", ":", "b">>, <<"a", " ">>, <<"*">>, <<":">>, <<"a", "1">>, <<"_">>, <<"{", "a", "}">> >>
MC_CharBytes == [c \in {"a", "b", "_", "x", "é", ":", "1", " ", "*", "{", "}"} |->
    CASE c = "a" -> <<97>> [] c = "b" -> <<98>> [] c = "_" -> <<95>> [] c = "x" -> <<120>>
      [] c = "é" -> <<195, 169>> [] c = ":" -> <<58>> [] c = "1" -> <<49>> [] c = " " -> <<32>>
      [] c = "*" -> <<42>> [] c = "{" -> <<123>> [] c = "}" -> <<125>>]
=============================================================================
