------------------------------ MODULE MCEncode ------------------------------
(* Bounds for Encode.tla: the set of abstract events, built from a header per kind
   (the well-known properties that make an event a span / a metric sample) followed by
   up to MaxExtras further properties, duplicates allowed. *)
EXTENDS Encode

CONSTANTS
    MaxExtras,  \* 2 (quick) or 3 (thorough): longest sequence of extra properties
    Tier        \* "quick" | "thorough" | "small" (self tests)

P(k, s) == [key |-> k, shape |-> s]

UserKeys == {"a", "b", "exception.message"}
\* keys that need escaping in the target formats: quote, backslash, newline, tab + non-ASCII
EscKeys == {"q\"uote", "back\\slash", "new\nline", "k\té ✓"}
EscShapes == {<<"I64">>, <<"Str">>, <<"StrCtl">>, <<"Seq", "F64">>, <<"MapKey", "I64", "Str">>, <<"None">>}
UserAtoms == {"Null", "Bool", "I64", "U64Big", "I128", "U128", "F64", "NaN", "Inf", "Str", "StrCtl",
              "StrUni", "Bytes", "Struct", "EnumUnit", "EnumNewtype", "None", "Err", "ErrChain",
              "Level", "Reent", "DispVal", "DbgVal", "I128Small", "U128Small"}
InnerQuick == {"I64", "U128", "F64", "NaN", "StrUni", "None", "Bytes", "Struct"}
Inner == IF Tier = "thorough" THEN UserAtoms ELSE InnerQuick
KeyInner == IF Tier = "thorough" THEN InnerQuick \cup {"Str"} ELSE {"I64", "Str"}

Comp1 ==
    {<<"Seq", x>> : x \in Inner} \cup {<<"MapStr", x>> : x \in Inner}
    \cup {<<"MapKey", k, x>> : k \in KeyKinds, x \in KeyInner}
    \cup {<<"Some", x>> : x \in Inner \ AbsentAtoms}

\* depth 2 composites (thorough): a composite of a composite over a few atoms
Small == {"I64", "U128", "NaN", "StrUni"}
CompSmall ==
    {<<"Seq", x>> : x \in Small} \cup {<<"MapStr", x>> : x \in Small}
    \cup {<<"MapKey", k, x>> : k \in KeyKinds, x \in {"I64"}} \cup {<<"Some", x>> : x \in Small}
Comp2 ==
    {<<"Seq">> \o c : c \in CompSmall} \cup {<<"MapStr">> \o c : c \in CompSmall}
    \cup {<<"MapKey", k>> \o c : k \in KeyKinds, c \in CompSmall}
    \cup {<<"Some">> \o c : c \in CompSmall}

\* value FORMS of core/src/value.rs beyond scalars and serde/sval captures: fixed-size arrays of
\* primitives, Options of primitives (From<Option<T>>), a borrowed fixed-size byte array
FormShapes ==
    {<<"Arr", x>> : x \in {"I64", "F64", "Str", "Bool", "U128", "NaN"}}
    \cup {<<"Opt", x>> : x \in {"I64", "F64", "Str", "Bool", "U128"}} \cup {<<"OptNone">>, <<"BytesRef">>}
UserShapes ==
    IF Tier = "small" THEN {<<"I64">>, <<"Str">>, <<"MapKey", "I64", "Str">>}
    ELSE {<<a>> : a \in UserAtoms} \cup Comp1 \cup FormShapes \cup (IF Tier = "thorough" THEN Comp2 ELSE {})

\* well-known keys carry the shapes they are defined for (quantifier restriction: a
\* well-known key with a foreign shape has no dedicated field to go to; the statement is
\* silent on it)
WkPairs == {
    P("lvl", <<"Level">>), P("lvl", <<"LevelText">>),
    P("err", <<"Err">>), P("err", <<"ErrChain">>), P("err", <<"Str">>),
    P("trace_id", <<"IdTyped">>), P("trace_id", <<"IdHex">>),
    P("span_id", <<"IdTyped">>), P("span_id", <<"IdHex">>),
    P("span_parent", <<"IdTyped">>), P("span_parent", <<"IdHex">>),
    P("span_name", <<"Str">>), P("span_name", <<"StrUni">>),
    P("metric_name", <<"Str">>), P("metric_unit", <<"Str">>), P("metric_unit", <<"StrUni">>),
    P("metric_value", <<"I64">>), P("metric_agg", <<"AggLast">>) }

Extras1 == WkPairs \cup {P(k, s) : k \in UserKeys, s \in UserShapes}
           \cup (IF Tier = "small" THEN {} ELSE {P(k, s) : k \in EscKeys, s \in EscShapes})

\* the properties combined into sequences of two and three
Core == {
    P("lvl", <<"Level">>), P("lvl", <<"LevelText">>),
    P("err", <<"Err">>), P("err", <<"ErrChain">>), P("err", <<"Str">>),
    P("trace_id", <<"IdTyped">>), P("trace_id", <<"IdHex">>),
    P("span_id", <<"IdTyped">>), P("span_parent", <<"IdHex">>),
    P("metric_unit", <<"Str">>), P("span_name", <<"Str">>),
    P("a", <<"I64">>), P("a", <<"Str">>), P("a", <<"I128">>), P("a", <<"Seq", "F64">>),
    P("a", <<"MapKey", "I64", "Str">>), P("a", <<"None">>),
    P("b", <<"Bool">>), P("b", <<"U64Big">>),
    P("exception.message", <<"Str">>), P("exception.message", <<"I64">>),
    P("a", <<"Reent">>), P("q\"u\\o\nte", <<"I64">>), P("q\"u\\o\nte", <<"StrUni">>) }
CoreSmall == {P("lvl", <<"Level">>), P("err", <<"ErrChain">>), P("metric_unit", <<"Str">>),
              P("a", <<"I64">>), P("a", <<"Str">>), P("exception.message", <<"Str">>)}
Comb == IF Tier = "small" THEN CoreSmall ELSE Core
\* the properties combined into sequences of three (thorough)
Core3 == {P("lvl", <<"Level">>), P("lvl", <<"LevelText">>), P("err", <<"ErrChain">>),
          P("trace_id", <<"IdHex">>), P("metric_unit", <<"Str">>),
          P("a", <<"I64">>), P("a", <<"Str">>), P("a", <<"MapKey", "I64", "Str">>),
          P("b", <<"U64Big">>), P("exception.message", <<"Str">>)}

ExtraSeqs ==
    {<<>>} \cup {<<x>> : x \in Extras1} \cup {<<x, y>> : x, y \in Comb}
    \cup (IF MaxExtras >= 3 THEN {<<x, y, z>> : x, y, z \in Core3} ELSE {})

FewExtras == {<<>>, <<P("metric_unit", <<"Str">>)>>, <<P("a", <<"I64">>), P("a", <<"Str">>)>>}

Extents == {"none", "point", "range"}
\* empty (end = start) and backwards (end < start) ranges: combined with every metric header and
\* with a small set of extra properties for every kind
OddExtents == {"rangeEmpty", "rangeBack"}
LiteExtras == {<<>>, <<P("a", <<"I64">>)>>, <<P("err", <<"ErrChain">>), P("lvl", <<"Level">>)>>,
               <<P("trace_id", <<"IdTyped">>), P("span_id", <<"IdHex">>), P("span_parent", <<"IdTyped">>)>>,
               <<P("metric_unit", <<"Str">>), P("a", <<"Seq", "F64">>)>>}
SpanHdr == <<P("evt_kind", <<"KindSpan">>)>>
MetricHdr(agg, v) ==
    <<P("evt_kind", <<"KindMetric">>), P("metric_name", <<"Str">>)>>
    \o (IF agg = "none" THEN <<>> ELSE <<P("metric_agg", <<agg>>)>>)
    \o <<P("metric_value", v)>>
\* a metric sample without a metric_name (its name is the rendered message)
MetricHdrNoName(agg, v) ==
    <<P("evt_kind", <<"KindMetric">>)>>
    \o (IF agg = "none" THEN <<>> ELSE <<P("metric_agg", <<agg>>)>>)
    \o <<P("metric_value", v)>>
Aggs == {"none", "AggCount", "AggSum", "AggLast"}
\* values that are not points: the sample is carried as a log record (Encode!RouteA)
NonNumericMetricValues == {<<"Null">>, <<"None">>, <<"Bool">>, <<"Str">>, <<"StrUni">>, <<"Seq", "Str">>,
                           <<"Seq", "Seq", "I64">>, <<"MapStr", "I64">>, <<"Struct">>, <<"Some", "Str">>,
                           <<"EnumUnit">>}
\* (integers beyond i64 are carried as the nearest double: a data point cannot be text)
MetricValues == {<<"I64">>, <<"F64">>, <<"Seq", "I64">>, <<"Seq", "F64">>, <<"NaN">>, <<"Inf">>,
                 <<"U64Big">>, <<"I128">>, <<"U128">>, <<"Arr", "F64">>,
                 \* 128-bit typed values that fit 64 bits
                 <<"I128Small">>, <<"U128Small">>, <<"Seq", "U128Small">>}
                \cup (IF Tier = "small" THEN {} ELSE NonNumericMetricValues)
MainMetricHdrs == {MetricHdr("AggSum", <<"F64">>), MetricHdr("AggLast", <<"Seq", "F64">>)}

BaseEvents ==
    {[kind |-> "log", extent |-> x, props |-> e] : x \in Extents, e \in ExtraSeqs}
    \cup {[kind |-> "span", extent |-> "range", props |-> SpanHdr \o e] : e \in ExtraSeqs}
    \cup {[kind |-> "metric", extent |-> x, props |-> MetricHdr(a, v) \o e] :
              x \in Extents \cup OddExtents, a \in Aggs, v \in MetricValues, e \in FewExtras}
    \cup (IF Tier = "small" THEN {} ELSE
          {[kind |-> "metric", extent |-> x, props |-> MetricHdrNoName(a, v) \o e] :
              x \in Extents, a \in Aggs, v \in {<<"I64">>, <<"Seq", "F64">>, <<"Str">>}, e \in FewExtras})
    \* an event of kind metric without a metric_value: no points, carried as a log record
    \cup (IF Tier = "small" THEN {} ELSE
          {[kind |-> "metric", extent |-> x, props |-> <<P("evt_kind", <<"KindMetric">>), P("metric_name", <<"Str">>)>> \o e] :
              x \in Extents, e \in FewExtras \cup {<<P("metric_agg", <<"AggSum">>)>>}})
    \cup (IF Tier = "small" THEN {} ELSE
          {[kind |-> "log", extent |-> x, props |-> e] : x \in OddExtents, e \in LiteExtras}
          \cup {[kind |-> "span", extent |-> x, props |-> SpanHdr \o e] : x \in OddExtents, e \in LiteExtras}
          \cup {[kind |-> "metric", extent |-> x, props |-> h \o e] :
                    x \in OddExtents, h \in MainMetricHdrs, e \in LiteExtras})
    \cup {[kind |-> "metric", extent |-> x, props |-> h \o e] :
              x \in Extents, h \in MainMetricHdrs, e \in ExtraSeqs}

WithCarrier(e, c, n) ==
    [kind |-> e.kind, extent |-> e.extent, props |-> e.props, carrier |-> c, split |-> n, tpl |-> "hole", dur |-> "any", mdl |-> "two"]

\* template forms: a plain hole `{a}` (everywhere else), a hole with a formatter, no hole at all
TplEvents ==
    IF Tier = "small" THEN {} ELSE
    {[kind |-> h.kind, extent |-> h.extent, props |-> h.hdr \o e, carrier |-> "slice", split |-> Len(h.hdr \o e), tpl |-> t, dur |-> "any", mdl |-> "two"] :
        h \in {[kind |-> "log", extent |-> "point", hdr |-> <<>>], [kind |-> "span", extent |-> "range", hdr |-> SpanHdr],
               [kind |-> "metric", extent |-> "point", hdr |-> MetricHdr("AggSum", <<"F64">>)]},
        t \in {"fmt_hole", "literal"},
        e \in LiteExtras \cup {<<P("a", s)>> : s \in {<<"Str">>, <<"F64">>, <<"Bool">>, <<"U128">>, <<"Seq", "F64">>, <<"Reent">>, <<"None">>}}}

\* properties concatenated across the two sides of an And / across event and ambient context
CarrierCore ==
    IF Tier = "small" THEN {P("lvl", <<"Level">>), P("metric_unit", <<"Str">>), P("a", <<"I64">>), P("a", <<"Str">>)}
    ELSE {P("lvl", <<"Level">>), P("lvl", <<"LevelText">>), P("err", <<"Str">>),
          P("trace_id", <<"IdTyped">>), P("trace_id", <<"IdHex">>), P("metric_unit", <<"Str">>),
          P("a", <<"I64">>), P("a", <<"Str">>), P("a", <<"MapKey", "I64", "Str">>), P("b", <<"U64Big">>),
          P("exception.message", <<"Str">>), P("q\"u\\o\nte", <<"I64">>)}
CarrierHdrs == {[kind |-> "log", extent |-> "point", hdr |-> <<>>],
                [kind |-> "span", extent |-> "range", hdr |-> SpanHdr],
                [kind |-> "metric", extent |-> "point", hdr |-> MetricHdr("AggSum", <<"F64">>)]}
Distinct2(x, y) == x.key # y.key
\* each side is a map: no key twice within a side; the same key on both sides is the point
CarrierSides ==
    {<<<<x>>, <<y>>>> : x, y \in CarrierCore}
    \cup (IF MaxExtras >= 3
          THEN {<<<<x, y>>, <<z>>>> : x, y, z \in Core3} \cup {<<<<x>>, <<y, z>>>> : x, y, z \in Core3}
          ELSE {})
SideOK(sd) == \A i, j \in 1..Len(sd) : i < j => sd[i].key # sd[j].key
\* what lives in the ambient context is buffered (C19: numbers, booleans, strings, structure
\* survive; the identity of an error value is not promised): no error values on that side
AmbientOK(sd) == \A i \in 1..Len(sd) : sd[i].shape \notin {<<"Err">>, <<"ErrChain">>}
CarrierEvents ==
    {WithCarrier([kind |-> h.kind, extent |-> h.extent, props |-> h.hdr \o sd[1] \o sd[2]], c, Len(h.hdr) + Len(sd[1])) :
        h \in CarrierHdrs, c \in {"and", "ambient"},
        sd \in {x \in CarrierSides : SideOK(x[1]) /\ SideOK(x[2])}}
    \ {e \in {WithCarrier([kind |-> h.kind, extent |-> h.extent, props |-> h.hdr \o sd[1] \o sd[2]], "ambient", Len(h.hdr) + Len(sd[1])) :
                  h \in CarrierHdrs, sd \in {x \in CarrierSides : ~AmbientOK(x[2])}} : TRUE}

\* the length of a range extent by magnitude class (everywhere else the harness draws a length):
\* zero, nanoseconds, microseconds, milliseconds, seconds, minutes and more
DurClasses == {"zero", "ns", "us", "ms", "s", "min"}
DurEvents ==
    IF Tier = "small" THEN {} ELSE
    {[kind |-> h.kind, extent |-> "range", props |-> h.hdr \o e, carrier |-> "slice", split |-> Len(h.hdr \o e), tpl |-> "hole", dur |-> d, mdl |-> "two"] :
        h \in {[kind |-> "log", hdr |-> <<>>], [kind |-> "span", hdr |-> SpanHdr],
               [kind |-> "metric", hdr |-> MetricHdr("AggSum", <<"F64">>)]},
        d \in DurClasses,
        e \in {<<P("a", <<"I64">>)>>, <<P("span_id", <<"IdTyped">>), P("lvl", <<"Level">>)>>}}

\* the module path by shape: one segment, two (everywhere else), three
MdlShapes == {"one", "three"}
MdlEvents ==
    IF Tier = "small" THEN {} ELSE
    {[kind |-> h.kind, extent |-> h.extent, props |-> h.hdr \o e, carrier |-> "slice", split |-> Len(h.hdr \o e), tpl |-> "hole", dur |-> "any", mdl |-> m] :
        h \in {[kind |-> "log", extent |-> "point", hdr |-> <<>>], [kind |-> "span", extent |-> "range", hdr |-> SpanHdr],
               [kind |-> "metric", extent |-> "point", hdr |-> MetricHdr("AggSum", <<"F64">>)]},
        m \in MdlShapes,
        e \in {<<>>, <<P("a", <<"I64">>)>>, <<P("span_id", <<"IdTyped">>), P("lvl", <<"Level">>)>>}}

MC_Events == {WithCarrier(e, "slice", Len(e.props)) : e \in BaseEvents} \cup CarrierEvents \cup TplEvents \cup DurEvents \cup MdlEvents

ASSUME PrintT(<<"TABLES", ToJson(Tables)>>)
ASSUME PrintT(<<"NEVENTS", Cardinality(MC_Events)>>)
=============================================================================
