----------------------------- MODULE TimeArith -----------------------------
(***************************************************************************)
(* X07 - Timestamp / Duration arithmetic (core/src/timestamp.rs beyond     *)
(* the text forms, which are C15's).                                       *)
(*                                                                         *)
(* Numbers are exact naturals written in base 10^9 with four digits        *)
(* <<d3, d2, d1, d0>>: d0 = nanoseconds, d3 d2 d1 = seconds (TLC integers  *)
(* are 32 bit; Timestamp::MAX is 253402300799 s, u64::MAX s is 1.8e19).    *)
(*                                                                         *)
(* Level A (the docs): a timestamp is an instant in MIN ..= MAX (epoch ..  *)
(* 9999-12-31T23:59:59.999999999Z); from_unix gives it exactly when the    *)
(* time since the epoch is in that range; checked_add / checked_sub give   *)
(* the exact sum / difference exactly when it is in range; `+` `-` `+=`    *)
(* `-=` are the same and panic otherwise; duration_since /                 *)
(* checked_duration_since / `a - b` give a - b exactly when b <= a; the    *)
(* order is that of the instants; to_parts gives the civil date and time   *)
(* (spec/Text.tla's calendar, read-only) and from_parts is its inverse,    *)
(* None out of range or for a zero month / day, fields beyond their        *)
(* maximum wrapping into the next unit.                                    *)
(* Level B (the code): Duration::checked_add / checked_sub on (u64 secs,   *)
(* nanos) with carry / borrow and u64 overflow, then the range check;      *)
(* to_parts' 400 / 100 / 4 year cycles from 2000-03-01; from_parts' fast   *)
(* path for 1900 - 2038 and cycle arithmetic otherwise (in days: every     *)
(* term of the code is a multiple of 86400).                               *)
(***************************************************************************)
EXTENDS Integers, Sequences, FiniteSets, TLC, Json

CONSTANTS Instants,    \* named instants: [n |-> name, v |-> digits]
          Durations,   \* named durations
          Dates,       \* civil dates [y, m, d] whose instants are taken apart / put together
          Clocks,      \* times of day [h, mi, s, n]
          Overflows,   \* parts with fields beyond their maximum: [y, m, d, h, mi, s, n]
          Emit

T == INSTANCE Text WITH PathAlgo <- "repaired", PathChars <- {}, PathMaxLen <- 0,
                        LevelChars <- {}, LevelMaxLen <- 0, mach <- "none", txt <- <<>>, st <- 0

VARIABLES case, res, phase
vars == <<case, res, phase>>

G == 1000000000
None == <<>>
Zero == <<0, 0, 0, 0>>
MaxT == <<0, 253, 402300799, 999999999>>          \* Timestamp::MAX
Two64 == <<18, 446744073, 709551616>>              \* 2^64 (seconds digits d3 d2 d1)

-----------------------------------------------------------------------------
(* exact arithmetic on digit sequences (most significant first, equal lengths) *)
RECURSIVE LtN(_, _)
LtN(a, b) == IF a = <<>> THEN FALSE ELSE IF a[1] # b[1] THEN a[1] < b[1] ELSE LtN(Tail(a), Tail(b))
LeN(a, b) == a = b \/ LtN(a, b)

\* sum, least significant digit last; the result has the same length (callers stay below G^len)
AddN(a, b) ==
    LET n == Len(a)
        C[i \in 0..n] == IF i = 0 THEN 0 ELSE (a[n - i + 1] + b[n - i + 1] + C[i - 1]) \div G      \* carry out of digit i
    IN [k \in 1..n |-> (a[k] + b[k] + C[n - k]) % G]
\* difference for b <= a
SubN(a, b) ==
    LET n == Len(a)
        Bw[i \in 0..n] == IF i = 0 THEN 0 ELSE IF a[n - i + 1] - b[n - i + 1] - Bw[i - 1] < 0 THEN 1 ELSE 0
    IN [k \in 1..n |-> (a[k] - b[k] - Bw[n - k] + G) % G]

(* Level A *)
InRange(x) == LeN(x, MaxT)
FromUnixA(d) == IF InRange(d) THEN d ELSE None
CheckedAddA(t, d) == LET s == AddN(t, d) IN IF InRange(s) THEN s ELSE None
CheckedSubA(t, d) == IF LeN(d, t) THEN SubN(t, d) ELSE None
SinceA(a, b) == IF LeN(b, a) THEN SubN(a, b) ELSE None
CmpA(a, b) == IF a = b THEN 0 ELSE IF LtN(a, b) THEN -1 ELSE 1

(* Level B: core::time::Duration as (secs: three digits, nanos) *)
Secs(x) == <<x[1], x[2], x[3]>>
One3 == <<0, 0, 1>>
SecsAddB(a, b) == LET s == AddN(a, b) IN IF LtN(s, Two64) THEN s ELSE None          \* u64::checked_add
DurCheckedAddB(x, y) ==
    LET s == SecsAddB(Secs(x), Secs(y)) IN
    IF s = None THEN None
    ELSE LET n == x[4] + y[4] IN
         IF n >= G THEN (LET s1 == SecsAddB(s, One3) IN IF s1 = None THEN None ELSE s1 \o <<n - G>>)
         ELSE s \o <<n>>
DurCheckedSubB(x, y) ==
    IF LtN(Secs(x), Secs(y)) THEN None                                                \* secs.checked_sub(rhs.secs)?
    ELSE LET s == SubN(Secs(x), Secs(y)) IN
         IF x[4] >= y[4] THEN s \o <<x[4] - y[4]>>
         ELSE IF s = <<0, 0, 0>> THEN None                                            \* secs.checked_sub(1)
         ELSE SubN(s, One3) \o <<x[4] + G - y[4]>>
FromUnixB(d) == IF d # None /\ LeN(Zero, d) /\ LeN(d, MaxT) THEN d ELSE None         \* unix_time >= MIN && <= MAX
CheckedAddB(t, d) == LET s == DurCheckedAddB(t, d) IN IF s = None THEN None ELSE FromUnixB(s)
CheckedSubB(t, d) == LET s == DurCheckedSubB(t, d) IN IF s = None THEN None ELSE FromUnixB(s)
SinceB(a, b) == DurCheckedSubB(a, b)

-----------------------------------------------------------------------------
(* civil dates: days since the epoch, second of the day, nanoseconds -> digits *)
\* days * 86400 + sod as seconds digits without leaving 32 bits
SecsOfDay(days, sod) ==
    LET a == days \div 1000   b == days % 1000
        q == a * 86400                                  \* < 2.6e8
        hi == q \div 1000000
        lo == (q % 1000000) * 1000 + b * 86400 + sod    \* < 1.1e9
    IN <<0, hi + lo \div G, lo % G>>
InstantOf(days, sod, n) == SecsOfDay(days, sod) \o <<n>>

(* Level B: to_parts, days part (the code's variables) *)
ToPartsDaysB(daysSinceEpoch) ==
    LET days0 == daysSinceEpoch - 11017                 \* LEAPOCH: 2000-03-01
        D400 == 146097  D100 == 36524  D4 == 1461
        qc0 == days0 \div D400                          \* (floor: the code adjusts a negative remainder)
        rem0 == days0 - qc0 * D400
        c0 == rem0 \div D100
        c == IF c0 = 4 THEN 3 ELSE c0
        rem1 == rem0 - c * D100
        q0 == rem1 \div D4
        q == IF q0 = 25 THEN 24 ELSE q0
        rem2 == rem1 - q * D4
        r0 == rem2 \div 365
        r == IF r0 = 4 THEN 3 ELSE r0
        rem3 == rem2 - r * 365
        years0 == r + 4 * q + 100 * c + 400 * qc0
        DIM == <<31, 30, 31, 30, 31, 31, 30, 31, 30, 31, 31, 29>>
        Walk[m \in 0..12] == IF m = 0 THEN rem3 ELSE Walk[m - 1] - DIM[m]      \* days left after m whole months
        months0 == CHOOSE m \in 0..11 : Walk[m] >= 0 /\ (Walk[m] < DIM[m + 1])
        remdays == Walk[months0]
        wrap == months0 >= 10
    IN [y |-> years0 + 2000 + (IF wrap THEN 1 ELSE 0),
        m |-> (IF wrap THEN months0 - 12 ELSE months0) + 3,
        d |-> remdays + 1]

(* Level B: from_parts, start of the year in days since the epoch, and whether it is a leap year *)
YearStartB(y) ==
    LET year == y - 1900 IN
    IF year >= 0 /\ year <= 138
    THEN LET x == year - 68
             leap == x % 4 = 0                                                 \* trailing_zeros() >= 2 (also for 0)
             leaps == (IF x >= 0 THEN x \div 4 ELSE -((-x + 3) \div 4)) - (IF leap THEN 1 ELSE 0)   \* >> 2 floors
         IN [days |-> 365 * (year - 70) + leaps, leap |-> leap]
    ELSE LET y100 == year - 100
             cyc0 == IF y100 >= 0 THEN y100 \div 400 ELSE -((-y100 + 399) \div 400)               \* truncation, then the rem < 0 fix
             rem0 == y100 - cyc0 * 400
             cent == IF rem0 = 0 THEN 0 ELSE IF rem0 >= 300 THEN 3 ELSE IF rem0 >= 200 THEN 2 ELSE IF rem0 >= 100 THEN 1 ELSE 0
             rem1 == rem0 - cent * 100
             leap == IF rem0 = 0 THEN TRUE ELSE IF rem1 = 0 THEN FALSE ELSE rem1 % 4 = 0
             lp == IF rem0 = 0 \/ rem1 = 0 THEN 0 ELSE rem1 \div 4
             leaps == lp + 97 * cyc0 + 24 * cent - (IF leap THEN 1 ELSE 0)
         IN [days |-> y100 * 365 + leaps + 10957 + 1, leap |-> leap]
MonthStart == <<0, 31, 59, 90, 120, 151, 181, 212, 243, 273, 304, 334>>
\* days and seconds-in-day of the parts (before the range check); months beyond 12 as the code indexes them
FromPartsB(p) ==
    IF p.m = 0 \/ p.d = 0 THEN None
    ELSE LET ys == YearStartB(p.y)
             insec == p.h * 3600 + p.mi * 60 + p.s
             days == ys.days + MonthStart[((p.m - 1) % 12) + 1] + (p.d - 1) + (IF ys.leap /\ p.m > 2 THEN 1 ELSE 0)
                     + insec \div 86400
             sod == insec % 86400
         IN IF days < 0 THEN None
            ELSE LET x == InstantOf(days, sod, p.n % G)
                     y == IF p.n >= G THEN AddN(x, <<0, 0, p.n \div G, 0>>) ELSE x               \* Duration::new carries
                 IN FromUnixB(y)

(* Level A: from_parts: the civil instant, fields beyond their maximum carried into the next unit *)
FromPartsA(p) ==
    IF p.m = 0 \/ p.d = 0 THEN None
    ELSE LET yy == p.y + (p.m - 1) \div 12
             mm == ((p.m - 1) % 12) + 1
             insec == p.h * 3600 + p.mi * 60 + p.s
             days == T!DaysFromCivil(yy, mm, 1) + (p.d - 1) + insec \div 86400
         IN IF days < 0 THEN None
            ELSE LET x == InstantOf(days, insec % 86400, p.n % G)
                     y == IF p.n >= G THEN AddN(x, <<0, 0, p.n \div G, 0>>) ELSE x
                 IN IF InRange(y) THEN y ELSE None

-----------------------------------------------------------------------------
Cases ==
    {[kind |-> "unix", d |-> d] : d \in Instants \cup Durations}
    \cup {[kind |-> "arith", t |-> t, d |-> d] : t \in Instants, d \in Durations}
    \cup {[kind |-> "since", a |-> a, b |-> b] : a \in Instants, b \in Instants}
    \cup {[kind |-> "mono", t |-> t, u |-> u, d |-> d] : t \in Instants, u \in Instants, d \in Durations}
    \cup {[kind |-> "parts", date |-> dt, clock |-> c] : dt \in Dates, c \in Clocks}
    \cup {[kind |-> "overflow", p |-> p] : p \in Overflows}

Init == case \in Cases /\ res = <<>> /\ phase = "ready"

PartsOf(dt, c) == [y |-> dt.y, m |-> dt.m, d |-> dt.d, h |-> c.h, mi |-> c.mi, s |-> c.s, n |-> c.n]
DayOf(dt) == T!DaysFromCivil(dt.y, dt.m, dt.d)
SodOf(c) == c.h * 3600 + c.mi * 60 + c.s

Eval ==
    /\ phase = "ready" /\ phase' = "done" /\ UNCHANGED case
    /\ res' = CASE case.kind = "unix" -> [v |-> FromUnixB(case.d.v)]
                [] case.kind = "arith" -> [add |-> CheckedAddB(case.t.v, case.d.v), sub |-> CheckedSubB(case.t.v, case.d.v)]
                [] case.kind = "since" -> [ab |-> SinceB(case.a.v, case.b.v), ba |-> SinceB(case.b.v, case.a.v)]
                [] case.kind = "mono" -> [t |-> CheckedAddB(case.t.v, case.d.v), u |-> CheckedAddB(case.u.v, case.d.v)]
                [] case.kind = "parts" -> [to |-> ToPartsDaysB(DayOf(case.date)), from |-> FromPartsB(PartsOf(case.date, case.clock))]
                [] case.kind = "overflow" -> [from |-> FromPartsB(case.p)]
Next == Eval
Spec == Init /\ [][Next]_vars

-----------------------------------------------------------------------------
(* Properties *)
Done == phase = "done"
FromUnixRule == Done /\ case.kind = "unix" => res.v = FromUnixA(case.d.v)
CheckedOpsRule == Done /\ case.kind = "arith" =>
    /\ res.add = CheckedAddA(case.t.v, case.d.v)
    /\ res.sub = CheckedSubA(case.t.v, case.d.v)
\* (t + d) - d = t and (t - d) + d = t whenever the first step is defined
AddSubInverse == Done /\ case.kind = "arith" =>
    /\ res.add # None => CheckedSubB(res.add, case.d.v) = case.t.v
    /\ res.sub # None => CheckedAddB(res.sub, case.d.v) = case.t.v
SinceRule == Done /\ case.kind = "since" =>
    /\ res.ab = SinceA(case.a.v, case.b.v) /\ res.ba = SinceA(case.b.v, case.a.v)
    /\ (res.ab # None /\ res.ba # None) <=> case.a.v = case.b.v                      \* antisymmetry
    /\ (res.ab # None /\ res.ba # None) => res.ab = Zero
    /\ res.ab # None \/ res.ba # None                                                \* one direction always exists
    /\ res.ab # None => CheckedAddB(case.b.v, res.ab) = case.a.v                     \* b + (a - b) = a
Monotone == Done /\ case.kind = "mono" =>
    /\ (LeN(case.t.v, case.u.v) /\ res.u # None) => (res.t # None /\ LeN(res.t, res.u))
    /\ res.t # None => LeN(case.t.v, res.t)                                          \* adding never goes back
PartsRule == Done /\ case.kind = "parts" =>
    /\ res.to = [y |-> case.date.y, m |-> case.date.m, d |-> case.date.d]           \* the code's cycles give the civil date
    /\ res.to = T!CivilFromDays(DayOf(case.date))
    /\ res.from = InstantOf(DayOf(case.date), SodOf(case.clock), case.clock.n)      \* from_parts inverts to_parts
    /\ res.from = FromPartsA(PartsOf(case.date, case.clock))
\* fields beyond their maximum wrap into the next unit (months beyond 12: see OverflowMonths)
OverflowRule == Done /\ case.kind = "overflow" /\ case.p.m <= 12 => res.from = FromPartsA(case.p)
\* the documented rule for a month beyond 12 - NOT what the code does
OverflowMonths == Done /\ case.kind = "overflow" => res.from = FromPartsA(case.p)

V(x) == [n |-> x.n, v |-> x.v]
Opt(x) == IF x = None THEN [some |-> FALSE, v |-> Zero] ELSE [some |-> TRUE, v |-> x]
CaseJson(c) ==
    CASE c.kind = "unix" -> [kind |-> "unix", d |-> V(c.d), want |-> Opt(FromUnixA(c.d.v))]
      [] c.kind = "arith" -> [kind |-> "arith", t |-> V(c.t), d |-> V(c.d), add |-> Opt(CheckedAddA(c.t.v, c.d.v)), sub |-> Opt(CheckedSubA(c.t.v, c.d.v))]
      [] c.kind = "since" -> [kind |-> "since", a |-> V(c.a), b |-> V(c.b), ab |-> Opt(SinceA(c.a.v, c.b.v)), ba |-> Opt(SinceA(c.b.v, c.a.v)),
                              cmp |-> CmpA(c.a.v, c.b.v)]
      [] c.kind = "mono" -> [kind |-> "mono", t |-> V(c.t), u |-> V(c.u), d |-> V(c.d), cmp |-> CmpA(c.t.v, c.u.v),
                             tadd |-> Opt(CheckedAddA(c.t.v, c.d.v)), uadd |-> Opt(CheckedAddA(c.u.v, c.d.v))]
      [] c.kind = "parts" -> [kind |-> "parts", parts |-> PartsOf(c.date, c.clock),
                              instant |-> InstantOf(DayOf(c.date), SodOf(c.clock), c.clock.n)]
      [] c.kind = "overflow" -> [kind |-> "overflow", parts |-> c.p, want |-> Opt(FromPartsA(c.p)), dontcare |-> c.p.m > 12,
                                 code |-> Opt(FromPartsB(c.p))]

EmitReplay == Emit => PrintT(<<"REPLAY", ToJson(CaseJson(case'))>>)
=============================================================================
