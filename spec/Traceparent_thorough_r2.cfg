\* C18 thorough (replay 2; TraceparentFilter alone): 2 threads, <= 2 spans, <= 3 frames, 1 task (polled on either thread), nesting <= 2, all forms, Frame::current hand-off; every transition replayed.
SPECIFICATION Spec
CONSTANTS
    NThreads = 2
    MaxSpans = 2
    MaxFrames = 3
    MaxTasks = 1
    MaxDepth = 2
    Headers <- MC_NoHeaders
    InSampled = FALSE
    SnapshotOnPush = TRUE
    WithLazy = TRUE
    WithCurrent = TRUE
    FrameKinds <- MC_NoKinds
    Sampler = TRUE
    CtxForms <- MC_Forms
    Panics = TRUE
    Emit = TRUE
VIEW tview
INVARIANTS SamplerOncePerTrace DecisionGoverns UnsampledSilent SampledConsistent NoTraceNoParent FrameCarries
PROPERTIES Restored
ACTION_CONSTRAINT EmitReplay
CHECK_DEADLOCK FALSE
