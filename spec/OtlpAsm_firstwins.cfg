\* X05 doc/code disagreement: the `Props` rule "the first value for a duplicated key is the one to use" applied to the resource; the
\* transcription of OtlpBuilder::resource (HashMap::insert in turn: the last wins) must violate it. 6 resources, one batch.
SPECIFICATION Spec
CONSTANTS
    Cases <- MC_Cases
    Which = "firstwins"
    Emit = FALSE
INVARIANTS ResourceFirstWins
CHECK_DEADLOCK FALSE
