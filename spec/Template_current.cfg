\* C16 self-test: the transcription of Template::eq as found (before the F12/F13 repair) on the
\* quick domain; CursorRefinesEqual must be violated.
SPECIFICATION Spec
CONSTANTS
    Chars = {"a", "é"}
    CharBytes <- MC_CharBytes
    Labels = {"x", "y"}
    MaxFragLen = 2
    MaxParts = 2
    Algo = "current"
INVARIANTS CursorRefinesEqual
CHECK_DEADLOCK FALSE
