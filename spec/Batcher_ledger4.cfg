\* Batcher ledger refinement, kill constants (receiver dropped at an await point): Batcher.tla implements BatcherLedger.tla (PROPERTY LedgerSpec) and its proved Safe holds through the mapping. Exhaustive.
SPECIFICATION Spec
CONSTANTS
    SenderOps <- K_SenderOps
    FlusherOps <- K_FlusherOps
    Cap = 1
    MaxRetry = 10
    MaxFail = 1
    AnyRemainder = FALSE
    NonEmptyRem = FALSE
    OutcomeSet = {"ok", "fail", "retry", "panic", "panicFut"}
    AllowKill = TRUE
    MaxIdleDelay = 3
    Emit = FALSE
VIEW view
CONSTRAINT IdleBound
INVARIANTS TypeOK LedgerSafe
CHECK_DEADLOCK FALSE
PROPERTY LedgerSpec
