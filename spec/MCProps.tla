------------------------------ MODULE MCProps ------------------------------
(* Constants for Props.tla: depth-bounded sets of collections, macro call sites. *)
EXTENDS Props

\* which set of collections this run explores (TLC evaluates every zero-arity constant
\* definition at start-up, so the sets are selected through operators with a parameter)
CONSTANT Which

\* byte order: "" < "a" < "b" < "é" (0xC3 0xA9)
MC_KeyOrderTrees == <<"", "a", "b", "é">>
\* the "views" run adds the well-known keys of the Extent / SpanCtxt views
MC_KeyOrderViews == <<"", "a", "b", "evt_kind", "metric_agg", "metric_name", "metric_value",
                       "span_id", "span_name", "span_parent", "trace_id", "ts", "ts_start", "é">>
KS == 1..4
K_ == 1      \* ""
Ka == 2
Kb == 3
Ke == IF Which = "views" THEN 14 ELSE 4      \* "é"
KEvtKind == 4
KMetricAgg == 5
KMetricName == 6
KMetricValue == 7
KSpanId == 8
KSpanName == 9
KSpanParent == 10
KTraceId == 11
KTs == 12
KTsStart == 13

\* Span: evt_kind = Kind::Span (read back as 31), span_name "41";
\* Metric: evt_kind = Kind::Metric (32), metric_name "42", metric_agg "43", metric_value 44
MC_SpanPrefix == <<[k |-> KEvtKind, v |-> 31], [k |-> KSpanName, v |-> 41]>>
MC_MetricPrefix == <<[k |-> KEvtKind, v |-> 32], [k |-> KMetricName, v |-> 42],
                     [k |-> KMetricAgg, v |-> 43], [k |-> KMetricValue, v |-> 44]>>

KVs(ks, b) == [i \in 1..Len(ks) |-> [k |-> ks[i], v |-> b + i]]

SeqsUpTo(S, n) == UNION {[1..m -> S] : m \in 0..n}

\* the keys of S as a sequence in descending order (maps are filled in this order,
\* so a sorted enumeration is the map's doing)
KPos(k) == k
DescSeq(S) ==
    [n \in 1..Cardinality(S) |->
        CHOOSE k \in S : Cardinality({j \in S : KPos(j) > KPos(k)}) = n - 1]

SubsetsUpTo(S, n) == {X \in SUBSET S : Cardinality(X) <= n}

\* every leaf over KS with at most L pairs; values b+1 .. b+L
LeavesFull(b, L) ==
    {[op |-> "empty"]}
    \cup {[op |-> "pair", kvs |-> KVs(<<k>>, b)] : k \in KS}
    \cup {[op |-> o, kvs |-> KVs(ks, b)] : o \in {"arr", "slice"}, ks \in SeqsUpTo(KS, L)}
    \cup {[op |-> o, kvs |-> KVs(DescSeq(X), b)] : o \in {"btree", "hash", "ctxt"}, X \in SubsetsUpTo(KS, L)}

\* a small pool for the deeper trees: duplicates inside a leaf, across leaves, maps,
\* the empty and the non-ASCII key
LeavesSmall(b) ==
    {[op |-> "empty"],
     [op |-> "pair", kvs |-> KVs(<<Ka>>, b)],
     [op |-> "pair", kvs |-> KVs(<<K_>>, b)],
     [op |-> "arr", kvs |-> KVs(<<Ka, Ka>>, b)],
     [op |-> "arr", kvs |-> KVs(<<Kb, Ka>>, b)],
     [op |-> "slice", kvs |-> KVs(<<Ke, Kb>>, b)],
     [op |-> "btree", kvs |-> KVs(<<Kb, Ka>>, b)],
     [op |-> "hash", kvs |-> KVs(<<Ke, Ka>>, b)],
     [op |-> "ctxt", kvs |-> KVs(<<Kb, Ka>>, b)]}

\* the Extent and SpanCtxt views (fixed values: ts_start 3, ts 5, trace 21, span 22, parent 23),
\* in the order the code yields them
ViewLeaves ==
    {[op |-> "extent", kvs |-> <<[k |-> KTs, v |-> 5]>>],
     [op |-> "extent", kvs |-> <<[k |-> KTsStart, v |-> 3], [k |-> KTs, v |-> 5]>>]}
    \cup {[op |-> "spanctxt",
           kvs |-> (IF tr THEN <<[k |-> KTraceId, v |-> 21]>> ELSE <<>>)
                   \o (IF sp THEN <<[k |-> KSpanId, v |-> 22]>> ELSE <<>>)
                   \o (IF pa THEN <<[k |-> KSpanParent, v |-> 23]>> ELSE <<>>)] :
            tr \in BOOLEAN, sp \in BOOLEAN, pa \in BOOLEAN}

\* The Extent view by the way the extent was obtained.  `src` names the public entry point,
\* `a` / `b` the start / end given to it (None: not given), `kvs` what the view then holds:
\*   point / range      Extent::point(b), Extent::range(a..b)           (the leaves above)
\*   ts / range_ts      ToExtent for Timestamp, for Range<Timestamp>
\*   optrange           ToExtent for Range<Option<Timestamp>>, every combination of bounds
\*   opt / ref          ToExtent for Option<T> / &T over an Extent
\*   span / metric / event            the extent a carrier built with `new` hands out
\*   span_with / metric_with / event_with   the same after `with_extent`
\* All but point / range yield an Option<Extent>, itself a collection (nothing when None).
\* The statement does not say which extent a half-open Range<Option<..>> stands for (X02
\* does): both "nothing" and "the one bound, as a point" are collections of their own here
\* and the harness judges the one the real conversion shows (as for NestedCtxts).
ExtSrcFull == {"range_ts", "optrange", "opt", "ref", "span", "metric", "event",
               "span_with", "metric_with", "event_with"}
ExtContent(a, b) ==
    IF a # None /\ b # None THEN {<<[k |-> KTsStart, v |-> a], [k |-> KTs, v |-> b]>>}
    ELSE IF a = None /\ b = None THEN {<<>>}
    ELSE {<<>>, <<[k |-> KTs, v |-> IF a # None THEN a ELSE b]>>}
ExtentSrcLeaves ==
    {[op |-> "extent", src |-> s, a |-> 3, b |-> 5, kvs |-> c] : s \in ExtSrcFull, c \in ExtContent(3, 5)}
    \cup {[op |-> "extent", src |-> s, a |-> None, b |-> 5, kvs |-> <<[k |-> KTs, v |-> 5]>>] :
             s \in {"ts", "opt", "ref", "span", "metric_with", "event"}}
    \cup {[op |-> "extent", src |-> s, a |-> None, b |-> None, kvs |-> <<>>] :
             s \in {"optrange", "span", "metric", "event_with", "span_with", "metric_with"}}
    \cup {[op |-> "extent", src |-> "optrange", a |-> 3, b |-> None, kvs |-> c] : c \in ExtContent(3, None)}
    \cup {[op |-> "extent", src |-> "optrange", a |-> None, b |-> 5, kvs |-> c] : c \in ExtContent(None, 5)}

\* Map carriers whose keys have mixed lengths, chosen so that the byte (lexicographic) order of
\* the texts and a length-first order differ ("é" / "ts" (2 bytes) against "evt_kind" (8), "b"
\* against "span_id"): a map is built in the order of its KEY TYPE and searched by text.  The
\* key type of a map carrier follows from the key storage form (KeyForms of Props.tla):
\* BTreeMap / HashMap keyed by &str (literal, shared_buf), String (string), Str (str_ref,
\* str_owned, str_shared).  Each alone, under every unary node (dyn ErasedProps included) and
\* joined (and_props) with the leaves of ViewRights.
MixedLenMaps(b) ==
    {[op |-> o, kvs |-> KVs(DescSeq(X), b)] :
        o \in {"btree", "hash"},
        X \in {{Ke, KEvtKind}, {Kb, KTs, Ke, KEvtKind}, {Ka, Kb, KSpanId, KTs, KTsStart}, {K_, Ke, Ka, KTraceId}}}

\* The Current of `emit_traceparent::TraceparentCtxt<ThreadLocalCtxt>` as a ctxt-snapshot carrier,
\* without an active sampled traceparent: one frame holding well-known id keys, pushed directly
\* on the wrapped ThreadLocalCtxt (tp = "inner") or through the TraceparentCtxt (tp = "outer": a
\* trace_id / span_parent without a span_id is not an incoming span and is passed on).  The view
\* enumerates the wrapped context's properties; lookup must agree with that.
TpCtxts(b) ==
    {[op |-> "ctxt", tp |-> w, kvs |-> KVs(ks, b)] :
        w \in {"inner", "outer"},
        ks \in {<<KTraceId>>, <<KTraceId, Kb>>, <<KSpanParent, KTraceId>>, <<Ka>>}}
    \cup {[op |-> "ctxt", tp |-> "inner", kvs |-> KVs(ks, b)] :
        ks \in {<<KSpanId>>, <<KSpanId, KTraceId, KSpanParent>>}}

\* ThreadLocalCtxt snapshots after 2-3 nested pushed frames with overlapping keys.  Which
\* frame's value a snapshot holds for a repeated key is C03's subject: every resolution
\* (each key takes the value of any frame that has it) is a collection of its own here,
\* `kvs` is the resolved content and `frames` what is pushed; the harness applies the
\* resolution the real snapshot shows.
FrameSets ==
    {<<KVs(<<Ka, Kb>>, 50), KVs(<<Ka>>, 52)>>,
     <<KVs(<<Ka>>, 50), KVs(<<Kb, Ka>>, 51), KVs(<<Ka, Ke>>, 53)>>,
     <<KVs(<<Kb, KTraceId>>, 50), KVs(<<KTraceId, KEvtKind>>, 52)>>}

FrameKeys(F) == UNION {{F[i][j].k : j \in 1..Len(F[i])} : i \in 1..Len(F)}
FrameCands(F, k) == UNION {{F[i][j].v : j \in {n \in 1..Len(F[i]) : F[i][n].k = k}} : i \in 1..Len(F)}
NestedCtxts ==
    UNION {{[op |-> "ctxt", frames |-> F,
             kvs |-> [n \in 1..Cardinality(FrameKeys(F)) |->
                        [k |-> DescSeq(FrameKeys(F))[n], v |-> r[DescSeq(FrameKeys(F))[n]]]]] :
            r \in {g \in [FrameKeys(F) -> 50..60] : \A k \in FrameKeys(F) : g[k] \in FrameCands(F, k)}} :
           F \in FrameSets}

\* user properties given to a Span / Metric: some repeat the well-known keys
UserProps(b) ==
    {[op |-> "empty"],
     [op |-> "pair", kvs |-> KVs(<<Ka>>, b)],
     [op |-> "pair", kvs |-> KVs(<<KEvtKind>>, b)],
     [op |-> "arr", kvs |-> KVs(<<KSpanName, KEvtKind, Ka>>, b)],
     [op |-> "arr", kvs |-> KVs(<<KMetricValue, KMetricName, KMetricValue>>, b)],
     [op |-> "hash", kvs |-> KVs(<<KMetricAgg, Ka>>, b)],
     [op |-> "spanctxt", kvs |-> <<[k |-> KTraceId, v |-> 21], [k |-> KSpanId, v |-> 22], [k |-> KSpanParent, v |-> 23]>>]}

SpanMetricViews(b) ==
    {[op |-> o, t |-> x] : o \in {"span", "metric"}, x \in UserProps(b)}
    \cup {[op |-> o, t |-> x] : o \in {"span_with", "metric_with"},
             x \in {[op |-> "pair", kvs |-> KVs(<<KEvtKind>>, b)],
                    [op |-> "arr", kvs |-> KVs(<<KMetricValue, KMetricName, KMetricValue>>, b)],
                    [op |-> "arr", kvs |-> KVs(<<KSpanName, KEvtKind, Ka>>, b)]}}

\* leaves that repeat the views' keys with other values
ViewRights(b) ==
    {[op |-> "empty"],
     [op |-> "pair", kvs |-> KVs(<<Ka>>, b)],
     [op |-> "arr", kvs |-> KVs(<<Kb, Ka>>, b)],
     [op |-> "hash", kvs |-> KVs(<<Ke, Ka>>, b)],
     [op |-> "pair", kvs |-> KVs(<<KTs>>, b)],
     [op |-> "arr", kvs |-> KVs(<<KTsStart, KTs, KTs>>, b)],
     [op |-> "ctxt", kvs |-> KVs(<<KTraceId, KSpanId>>, b)],
     [op |-> "slice", kvs |-> KVs(<<KSpanParent, KTraceId>>, b)],
     [op |-> "arr", kvs |-> KVs(<<KEvtKind, KMetricValue, KSpanName>>, b)],
     [op |-> "extent", kvs |-> <<[k |-> KTsStart, v |-> 3], [k |-> KTs, v |-> 5]>>],
     [op |-> "spanctxt", kvs |-> <<[k |-> KTraceId, v |-> 21], [k |-> KSpanId, v |-> 22]>>]}

AllViews == ViewLeaves \cup NestedCtxts \cup SpanMetricViews(30)

LeavesMid(b) ==
    LeavesSmall(b) \cup
    {[op |-> "pair", kvs |-> KVs(<<Kb>>, b)],
     [op |-> "arr", kvs |-> KVs(<<Ka, Kb, Ka>>, b)],
     [op |-> "slice", kvs |-> KVs(<<K_, K_>>, b)],
     [op |-> "hash", kvs |-> KVs(<<Kb, Ka, K_>>, b)]}

Pool(mode, b) ==
    CASE mode = "full2" -> LeavesFull(b, 2)
      [] mode = "full3" -> LeavesFull(b, 3)
      [] mode = "small" -> LeavesSmall(b)
      [] mode = "mid" -> LeavesMid(b)

\* most pairs a tree of depth d can hold (the value base of a right-hand side is
\* shifted by this much, so all values in a tree are distinct)
RECURSIVE Width(_)
Width(d) == IF d = 0 THEN 3 ELSE 2 * Width(d - 1)

RECURSIVE T(_, _, _)
T(mode, d, b) ==
    IF d = 0 THEN Pool(mode, b)
    ELSE LET sub == T(mode, d - 1, b)
             subR == T(mode, d - 1, b + Width(d - 1))
         IN sub \cup {[op |-> "none"]}
                \cup {[op |-> o, t |-> x] : o \in Unary, x \in sub}
                \cup {[op |-> "and", l |-> x, r |-> y] : x \in sub, y \in subR}

MC_GrowLeaves(b) == LeavesMid(b)

-----------------------------------------------------------------------------
(* macro call sites *)

MC_IdOrder == <<"a", "b", "c", "type">>
Ids == {"a", "b", "c", "type"}

MC_KeyOrderSites ==
    <<"", "0a", "0b", "0c", "0type", "a", "b", "c", "type",
      "za", "zb", "zc", "ztype", "é 0", "é 1", "é 2", "é 3">>

\* keys are indices into MC_KeyOrderSites
SiteKey(text) == CHOOSE n \in 1..Len(MC_KeyOrderSites) : MC_KeyOrderSites[n] = text
PlainKey == [i \in Ids |-> SiteKey(i)]
LoKey == [i \in Ids |-> SiteKey(CASE i = "a" -> "0a" [] i = "b" -> "0b" [] i = "c" -> "0c" [] i = "type" -> "0type")]
HiKey == [i \in Ids |-> SiteKey(CASE i = "a" -> "za" [] i = "b" -> "zb" [] i = "c" -> "zc" [] i = "type" -> "ztype")]
\* not identifiers, non-ASCII, and in the reverse order of the identifiers
NonIdKey == [i \in Ids |-> SiteKey(CASE i = "a" -> "é 3" [] i = "b" -> "é 2" [] i = "c" -> "é 1" [] i = "type" -> "é 0")]

FeatsAll == {"plain", "lo", "hi", "nonid", "empty", "optsome", "optnone", "cfgoff", "cfgon",
             "hi_optnone", "lo_optsome", "hi_cfgon"}
FeatsQuick == {"plain", "lo", "hi", "nonid", "optnone", "cfgoff"}

Entry(id, feat, v) ==
    [id |-> id, feat |-> feat,
     key |-> CASE feat \in {"lo", "lo_optsome"} -> LoKey[id]
               [] feat \in {"hi", "hi_optnone", "hi_cfgon"} -> HiKey[id]
               [] feat = "nonid" -> NonIdKey[id]
               [] feat = "empty" -> SiteKey("")
               [] OTHER -> PlainKey[id],
     val |-> IF feat \in {"optnone", "hi_optnone"} THEN None ELSE v,
     on |-> feat # "cfgoff"]

IdPosMC(i) == CHOOSE n \in 1..Len(MC_IdOrder) : MC_IdOrder[n] = i
AscSeq(S) ==
    [n \in 1..Cardinality(S) |->
        CHOOSE k \in S : Cardinality({j \in S : IdPosMC(j) < IdPosMC(k)}) = n - 1]
Rev(s) == [i \in 1..Len(s) |-> s[Len(s) + 1 - i]]

NonPlain(f) == Cardinality({i \in DOMAIN f : f[i] # "plain"})

\* the call sites over the identifier sequences IdSeqs with features from Feats, at
\* most maxNonPlain non-plain keys, distinct final names (quantifier restriction)
Sites(IdSeqs, Feats, maxNonPlain) ==
    {[op |-> "macro", ents |-> [i \in 1..Len(ids) |-> Entry(ids[i], f[i], i)]] :
        <<ids, f>> \in {p \in UNION {{<<s, g>> : g \in [1..Len(s) -> Feats]} : s \in IdSeqs} :
            /\ NonPlain(p[2]) <= maxNonPlain
            /\ \A i, j \in 1..Len(p[1]) : i < j =>
                  Entry(p[1][i], p[2][i], i).key # Entry(p[1][j], p[2][j], j).key}}

Sets3 == {S \in SUBSET Ids : Cardinality(S) = 3}
Sets2 == {S \in SUBSET Ids : Cardinality(S) = 2}
Sets1 == {S \in SUBSET Ids : Cardinality(S) = 1}

SitesQuick(x) ==
    {[op |-> "macro", ents |-> <<>>]}
    \cup Sites({AscSeq(S) : S \in Sets1}, FeatsAll, 1)
    \cup Sites({AscSeq(S) : S \in {{"a", "b"}, {"a", "c"}, {"b", "type"}}}
               \cup {Rev(AscSeq(S)) : S \in {{"a", "b"}, {"c", "type"}}}, FeatsQuick, 2)
    \cup Sites({AscSeq(S) : S \in Sets3} \cup {<<"c", "a", "b">>}, FeatsQuick, 2)

SitesThorough(x) ==
    {[op |-> "macro", ents |-> <<>>]}
    \cup Sites({AscSeq(S) : S \in Sets1}, FeatsAll, 1)
    \cup Sites({AscSeq(S) : S \in Sets2} \cup {Rev(AscSeq(S)) : S \in Sets2}, FeatsAll, 2)
    \cup Sites({AscSeq(S) : S \in Sets3} \cup {<<"c", "a", "b">>, <<"type", "b", "a">>},
               FeatsAll \ {"lo_optsome", "hi_cfgon", "cfgon", "optsome"}, 3)

-----------------------------------------------------------------------------
(* large collections: more than a handful of properties, so that buffers, sorts and
   searches inside the implementation leave their small-input paths *)

\* "k001" .. "k200": byte order = numeric order
Pad3(i) == IF i < 10 THEN "k00" \o ToString(i) ELSE IF i < 100 THEN "k0" \o ToString(i) ELSE "k" \o ToString(i)
MC_KeyOrderBig == [i \in 1..200 |-> Pad3(i)]

\* the keys of a large collection of n properties; values are b+1 .. b+n in this order
BigKeys(n, pattern) ==
    CASE pattern = "distinct" -> [i \in 1..n |-> i]                       \* ascending, all distinct
      [] pattern = "desc" -> [i \in 1..n |-> n + 1 - i]                   \* descending, all distinct
      [] pattern = "adjacent" -> [i \in 1..n |-> (i + 1) \div 2]          \* every key twice, adjacent
      [] pattern = "far" -> [i \in 1..n |-> ((i - 1) % (n \div 2)) + 1]    \* every key twice, half apart
      [] pattern = "fardesc" -> [i \in 1..n |-> (n \div 2) - ((i - 1) % (n \div 2))]
      [] pattern = "hot" -> [i \in 1..n |-> IF i % 2 = 1 THEN 7 ELSE 7 + i \div 2] \* one key n/2 times, interleaved

Big(op, n, pattern, b) == [op |-> op, kvs |-> KVs(BigKeys(n, pattern), b)]

BigSizes == {21, 33, 64, 200}
BigLeaves ==
    {Big("slice", n, p, 0) : n \in BigSizes, p \in {"distinct", "desc", "adjacent", "far", "fardesc", "hot"}}
    \cup {Big(o, n, "desc", 0) : o \in {"btree", "hash", "ctxt"}, n \in {21, 64}}

\* a few joins (both sides large, a map on one side, a small one on one side)
BigJoins ==
    {[op |-> "and", l |-> Big("slice", n, "far", 0), r |-> Big("slice", n, "hot", 1000)] : n \in {21, 33}}
    \cup {[op |-> "and", l |-> Big("hash", 33, "desc", 0), r |-> Big("slice", 33, "fardesc", 1000)],
          [op |-> "and", l |-> Big("slice", 64, "adjacent", 0), r |-> Big("btree", 64, "distinct", 1000)],
          [op |-> "and", l |-> [op |-> "pair", kvs |-> KVs(<<5>>, 2000)], r |-> Big("slice", 33, "far", 0)],
          [op |-> "and", l |-> Big("slice", 21, "distinct", 0), r |-> Big("slice", 21, "desc", 1000)]}

\* modes: <<pool, depth of the seeds>>; the explored trees of a mode have one more level
ModesFor(w) ==
    CASE w = "trees_tiny" -> <<<<"small", 0>>>>
      [] w = "trees_quick" -> <<<<"full2", 0>>, <<"small", 1>>>>
      [] w = "trees_thorough" -> <<<<"full3", 0>>, <<"mid", 1>>>>
      [] OTHER -> <<>>

IsSites == Which \in {"sites_quick", "sites_thorough"}

MC_NModes == IF IsSites \/ Which \in {"views", "big"} THEN 1 ELSE Len(ModesFor(Which))
MC_Seeds(m) ==
    IF Which = "big" THEN BigLeaves \cup BigJoins
    ELSE IF Which = "views" THEN AllViews \cup {[op |-> o, t |-> x] : o \in {"dedup", "erased"}, x \in AllViews}
                            \cup {[op |-> "and", l |-> x, r |-> y] : x \in ViewRights(70), y \in AllViews}
                            \cup ExtentSrcLeaves \cup MixedLenMaps(30) \cup TpCtxts(30)
                            \cup {[op |-> "and", l |-> [op |-> "pair", kvs |-> KVs(<<KEvtKind>>, 70)], r |-> y] : y \in MixedLenMaps(30)}
                            \cup {[op |-> "and", l |-> x, r |-> y] :
                                     x \in {[op |-> "pair", kvs |-> KVs(<<KTs>>, 70)],
                                            [op |-> "arr", kvs |-> KVs(<<KTsStart, KTs, KTs>>, 70)]},
                                     y \in ExtentSrcLeaves}
    ELSE IF IsSites THEN (IF Which = "sites_quick" THEN SitesQuick(0) ELSE SitesThorough(0))
    ELSE T(ModesFor(Which)[m][1], ModesFor(Which)[m][2], 0) \cup {[op |-> "none"]}
MC_Rights(m) ==
    IF Which = "big" THEN {[op |-> "pair", kvs |-> KVs(<<7>>, 3000)]}
    ELSE IF Which = "views" THEN ViewRights(80)
                            \cup {[op |-> "span", t |-> [op |-> "pair", kvs |-> KVs(<<KEvtKind>>, 90)]],
                                  [op |-> "metric", t |-> [op |-> "arr", kvs |-> KVs(<<KMetricValue, KEvtKind>>, 90)]]}
    ELSE IF IsSites THEN {}
    ELSE T(ModesFor(Which)[m][1], ModesFor(Which)[m][2], Width(ModesFor(Which)[m][2]))
MC_Wraps(m) ==
    IF Which = "big" THEN {"dedup", "erased", "asmap", "box", "opt"}
    ELSE IF IsSites THEN {} ELSE IF Which = "views" THEN Unary \cup {"span", "metric"} ELSE Unary

MC_KeyOrder ==
    IF Which \in {"sites_quick", "sites_thorough"} THEN MC_KeyOrderSites
    ELSE IF Which = "views" THEN MC_KeyOrderViews
    ELSE IF Which = "big" THEN MC_KeyOrderBig ELSE MC_KeyOrderTrees
=============================================================================
