\* C13 thorough: as quick, with <= 3 extra properties (all ordered triples over 10 core properties),
\* composites over all 23 atoms and depth-2 composites (composite of composite over 4 atoms);
\* the harness instantiates every abstract event 3 times from the value pool (64 KiB strings).
\* Dimensions as listed in Encode_quick.cfg (key kinds, non-numeric metric values, length classes, carriers, forms).
SPECIFICATION Spec
CONSTANTS
    Events <- MC_Events
    FixF8 = TRUE
    FixF9 = TRUE
    AndClaimsUnique = FALSE
    CarveF17 = TRUE
    Emit = TRUE
    MaxExtras = 3
    Tier = "thorough"
INVARIANTS TypeOK UniqueClaimSound AttrKeysUnique EveryPropOnce FirstWins WellKnownLifted Total Refines
ACTION_CONSTRAINT EmitReplay
CHECK_DEADLOCK FALSE
