\* C04 quick (hand-off): 2 threads, <= 2 spans (verdict free), <= 3 frames, no tasks, nesting <= 2; spans begun on one thread and entered on another,
\* Frame::current hand-off, incoming trace/span ids (typed / hex / integer), events at every point; every transition replayed.
SPECIFICATION SSpec
CONSTANTS
    NThreads = 2
    StoreOf <- MC_Store1
    InstKind <- MC_Kind1
    NKeys = 3
    PropChoices <- MC_None
    DupChoices <- MC_NoDups
    Kinds <- MC_None
    Forms <- MC_None
    MaxFrames = 3
    MaxTasks = 0
    MaxDepth = 2
    Panics = TRUE
    Discards = FALSE
    MaxSpans = 2
    IncomingKinds <- MC_IncBoth
    WithLazy = FALSE
    HasRng = TRUE
    ExplicitKinds <- MC_ExNone
    PushLastWins = FALSE
    WithCancel = FALSE
    CancelOwnIds = FALSE
    CtxForms <- MC_Forms
    Emit = TRUE
VIEW sview
INVARIANTS InnermostWins NoTrace StackOK FrameIds AmbientIds OneTrace ParentIsEnclosing EventCarriesInnermost IdsDistinct
PROPERTIES Revert
ACTION_CONSTRAINT SEmitReplay
CHECK_DEADLOCK FALSE
