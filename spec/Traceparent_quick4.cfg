\* C18 quick (invalid headers): TraceparentFilter with sampler alone; 1 thread, <= 2 spans, <= 3 frames, nesting <= 3; headers: sampled (trace 101) and every invalid / partial kind
\* (no ids, span id only, trace id only) with sampled and unsampled flag - an invalid header is ignored: the next span is a root and the sampler decides; every transition replayed.
SPECIFICATION Spec
CONSTANTS
    NThreads = 1
    MaxSpans = 2
    MaxFrames = 3
    MaxTasks = 0
    MaxDepth = 3
    Headers <- MC_HeadersInv
    InSampled = FALSE
    SnapshotOnPush = TRUE
    WithLazy = FALSE
    WithCurrent = TRUE
    FrameKinds <- MC_NoKinds
    Sampler = TRUE
    CtxForms <- MC_Forms
    Panics = TRUE
    Emit = TRUE
VIEW tview
INVARIANTS SamplerOncePerTrace DecisionGoverns UnsampledSilent SampledConsistent NoTraceNoParent FrameCarries
PROPERTIES Restored
ACTION_CONSTRAINT EmitReplay
CHECK_DEADLOCK FALSE
