---------------------------- MODULE MCSpanGuard ----------------------------
EXTENDS SpanGuard
\* clock scripts <<reading at start, reading at completion>>, 0 = the clock has no reading
\* forwards, backwards, standing still, none at start, none at completion, none at all
MC_ScriptsQuick == {<<3, 5>>, <<5, 3>>, <<0, 5>>, <<5, 0>>}
MC_ScriptsTyped == {<<3, 5>>, <<5, 3>>}
MC_ScriptsThorough == {<<3, 5>>, <<5, 3>>, <<4, 4>>, <<0, 5>>, <<5, 0>>, <<0, 0>>}
=============================================================================
