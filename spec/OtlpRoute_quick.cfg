\* C14 quick: 9 kind spellings x 5 extents (incl. empty and backwards ranges) x 11 metric value shapes x 3 aggregations x the 8 signal
\* subsets = 11880 abstract events, each an initial state of the emit path; replayed over HTTP/protobuf, HTTP/JSON+gzip, gRPC+gzip.
SPECIFICATION Spec
CONSTANTS
    Kinds = {"absent", "span", "metric", "SPAN", "padMetric", "other", "int", "typedSpan", "typedMetric"}
    Extents = {"none", "point", "range", "emptyRange", "backRange"}
    Vals = {"i64", "f64", "u64big", "seqi", "seqf", "emptySeq", "nestedSeq", "textSeq", "text", "bool", "missing"}
    Aggs = {"count", "last", "missing"}
    Emit = TRUE
INVARIANTS TypeOK RouteRefines DiscardCounted OnlyConfigured
PROPERTY SentOnce
ACTION_CONSTRAINT EmitReplay
CHECK_DEADLOCK FALSE
