\* C04 thorough (model checking only, 1): 2 threads, <= 3 spans (verdict free), <= 4 frames, 1 task, nesting <= 2, all forms, incoming trace+span ids, async-fn spans. (panics and cancellation are in the other configurations)
SPECIFICATION SSpec
CONSTANTS
    NThreads = 2
    StoreOf <- MC_Store1
    InstKind <- MC_Kind1
    NKeys = 3
    PropChoices <- MC_None
    DupChoices <- MC_NoDups
    Kinds <- MC_None
    Forms <- MC_None
    MaxFrames = 4
    MaxTasks = 1
    MaxDepth = 2
    Panics = FALSE
    Discards = FALSE
    MaxSpans = 3
    IncomingKinds <- MC_IncBoth
    WithLazy = TRUE
    HasRng = TRUE
    ExplicitKinds <- MC_ExNone
    PushLastWins = FALSE
    WithCancel = FALSE
    CancelOwnIds = FALSE
    CtxForms <- MC_Forms
    Emit = FALSE
VIEW sview
INVARIANTS InnermostWins NoTrace StackOK FrameIds AmbientIds OneTrace ParentIsEnclosing EventCarriesInnermost IdsDistinct
PROPERTIES Revert
ACTION_CONSTRAINT SEmitReplay
CHECK_DEADLOCK FALSE
