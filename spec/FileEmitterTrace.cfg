\* monitor of the whole rolling-file emitter over a recorded trace (env TRACE); event sizes as in MCFileWorker.
SPECIFICATION ESpec
CONSTANTS
    EvSize <- MC_EvSize
POSTCONDITION ETraceAccepted
CHECK_DEADLOCK FALSE
