------------------------- MODULE MCFileSetTraceJson -------------------------
\* production runs through the default JSON writer: every record is 40 bytes
\* (harness/vh_file prod::JSON_LEN), a separator 1
EXTENDS FileSetTrace
MC_EvSize == [e \in 1..30 |-> 40]
=============================================================================
