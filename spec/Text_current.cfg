\* C15 self-test: the transcription of is_valid_path as found (before the F11 repair);
\* AutomataRefineGrammar must be violated.
SPECIFICATION Spec
CONSTANTS
    PathAlgo = "current"
    PathChars = {"a", "1", "_", ":", "-"}
    PathMaxLen = 5
    LevelChars = {"d"}
    LevelMaxLen = 1
    Tier = "quick"
    Emit = FALSE
INVARIANTS AutomataRefineGrammar
CHECK_DEADLOCK FALSE
