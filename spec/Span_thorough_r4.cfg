\* C04 thorough (id sources): 1 thread, <= 3 spans, <= 3 frames, no tasks, nesting <= 3; incoming ids in all three kinds; ids of a span node generated / all explicit / drawn by the program from the random source / SpanCtxt::new_root / span_id alone;
\* every transition replayed.
SPECIFICATION SSpec
CONSTANTS
    NThreads = 1
    StoreOf <- MC_Store1
    InstKind <- MC_Kind1
    NKeys = 3
    PropChoices <- MC_None
    DupChoices <- MC_NoDups
    Kinds <- MC_None
    Forms <- MC_None
    MaxFrames = 3
    MaxTasks = 0
    MaxDepth = 3
    Panics = TRUE
    Discards = FALSE
    MaxSpans = 3
    IncomingKinds <- MC_IncAll
    WithLazy = FALSE
    HasRng = TRUE
    ExplicitKinds <- MC_ExEvery
    PushLastWins = FALSE
    WithCancel = FALSE
    CancelOwnIds = FALSE
    CtxForms <- MC_Forms
    Emit = TRUE
VIEW sview
INVARIANTS InnermostWins NoTrace StackOK FrameIds AmbientIds OneTrace ParentIsEnclosing EventCarriesInnermost IdsDistinct
PROPERTIES Revert
ACTION_CONSTRAINT SEmitReplay
CHECK_DEADLOCK FALSE
