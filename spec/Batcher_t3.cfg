\* Batcher t3: retry exhaustion: s1 = send; f1 = blocking flush; every attempt may fail; Cap 1, MaxRetry 10 (hard-coded by bounded()), <= 12 processor faults, AnyRemainder FALSE, receiver kill FALSE; idle spinning cut at 3 ms. Exhaustive.
SPECIFICATION Spec
CONSTANTS
    SenderOps <- R_SenderOps
    FlusherOps <- R_FlusherOps
    Cap = 1
    MaxRetry = 10
    MaxFail = 12
    AnyRemainder = FALSE
    NonEmptyRem = FALSE
    OutcomeSet = {"ok", "fail", "retry", "panic", "panicFut"}
    AllowKill = FALSE
    MaxIdleDelay = 3
    Emit = TRUE
VIEW view
CONSTRAINT IdleBound
INVARIANTS TypeOK Bounded Partition StatusConsistent TruncCounted FlushMeansDone FlushRetTruthful RetryBounded BackoffBounded CallbackOnce SendNeverWaits
ACTION_CONSTRAINT EmitReplay
CHECK_DEADLOCK FALSE
