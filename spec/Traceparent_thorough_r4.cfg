\* C18 thorough (replay 4; TraceparentFilter alone): 1 thread, <= 2 spans, <= 3 frames, nesting <= 3, all eleven headers (valid, mismatched, and every invalid kind: no ids, span id only, trace id only, each with sampled and unsampled flag), nested header pushes (mismatched trace, same trace / other caller span); every transition replayed.
SPECIFICATION Spec
CONSTANTS
    NThreads = 1
    MaxSpans = 2
    MaxFrames = 3
    MaxTasks = 0
    MaxDepth = 3
    Headers <- MC_HeadersAllInv
    InSampled = FALSE
    SnapshotOnPush = TRUE
    WithLazy = FALSE
    WithCurrent = TRUE
    FrameKinds <- MC_NoKinds
    Sampler = TRUE
    CtxForms <- MC_Forms
    Panics = TRUE
    Emit = TRUE
VIEW tview
INVARIANTS SamplerOncePerTrace DecisionGoverns UnsampledSilent SampledConsistent NoTraceNoParent FrameCarries
PROPERTIES Restored
ACTION_CONSTRAINT EmitReplay
CHECK_DEADLOCK FALSE
