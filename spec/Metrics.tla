------------------------------ MODULE Metrics ------------------------------
(***************************************************************************)
(* X01 - metrics reporting (src/metric.rs: Reporter, Source, Sampler).     *)
(*                                                                         *)
(* A source is a tree                                                      *)
(*   leaf [id, script]   yields the scripted samples (extents) in order,   *)
(*                       every time it is sampled                          *)
(*   | none | and l r | or l r | some | ref | box | arc | erased           *)
(*   | reporter [clock, srcs]    a Reporter used as a source               *)
(* A Reporter is built by add_source / normalize_with_clock /              *)
(* without_normalization and sampled by sample_metrics / emit_metrics.     *)
(*                                                                         *)
(* Level A (module docs of Reporter): one call samples every registered    *)
(* source exactly once, in registration order (left to right inside        *)
(* and / or), and hands every sample exactly once, in order, to the        *)
(* sampler, with its extent normalised against the single reading `now`    *)
(* the reporter takes for the call:                                        *)
(*   no clock / no reading:  the sample is passed on unchanged             *)
(*   no extent, or a point:  the point `now`                               *)
(*   a range:  now - len .. now  where len is the original length; when    *)
(*             that is no valid range (backwards original: no length;      *)
(*             now - len before the epoch) the original range is kept.     *)
(* Wrappers and composition are transparent.  The log of a call is the     *)
(* sequence of  clk (a configured clock is read), src (a leaf source is    *)
(* invoked), m (a sample reaches the sampler).                             *)
(*                                                                         *)
(* Level B (the code): `TimeNormalizer { now, inner }` samplers are        *)
(* stacked by (nested) reporters; a leaf's sample passes through the stack *)
(* from the innermost to the outermost (`metric.with_extent(..)`), ranges  *)
(* go through `normalize_range` (duration_since?, checked_sub?).           *)
(***************************************************************************)
EXTENDS ExtentBase, Json

CONSTANTS
    Scens,           \* scenario names
    Addable(_),      \* scenario -> trees add_source may register
    ClocksOf(_),     \* scenario -> clock settings that may be configured
    MaxAdds(_),      \* scenario -> bound on add_source calls
    MaxOps(_),       \* scenario -> bound on all calls
    SysNow,          \* stands for the reading of the system clock (an instant later than all others)
    Emit

Off == [m |-> "off", at |-> Absent]                 \* without_normalization()
Fixed(r) == [m |-> "fixed", at |-> r]               \* normalize_with_clock(a clock answering r, r may be Absent)
System == [m |-> "system", at |-> Absent]           \* Reporter::new() with std

ReadingOf(c) == IF c.m = "system" THEN SysNow ELSE c.at

VARIABLES scen, srcs, clock, nadds, nops, fresh, out, hist
vars == <<scen, srcs, clock, nadds, nops, fresh, out, hist>>
view == <<scen, srcs, clock, nadds, nops, fresh, out>>

Ev(t, id, idx, x) == [t |-> t, id |-> id, idx |-> idx, x |-> x]
ClkEv(c) == IF c.m = "fixed" THEN <<Ev("clk", 0, 0, NoX)>> ELSE <<>>

ConcatMap(F(_), s) == LET C[i \in 0..Len(s)] == IF i = 0 THEN <<>> ELSE C[i - 1] \o F(s[i])
                      IN C[Len(s)]

-----------------------------------------------------------------------------
(* Level A *)
NormA(now, x) ==
    IF now = Absent THEN x
    ELSE IF x.kind = "range"
         THEN LET len == SinceA(x.end, x.start)
                  start == IF len = Absent THEN Absent ELSE MinusA(now, len)
              IN IF start # Absent THEN RangeX(start, now) ELSE x
         ELSE PointX(now)

NormLog(now, log) ==
    [i \in DOMAIN log |-> IF log[i].t = "m" THEN [log[i] EXCEPT !.x = NormA(now, @)] ELSE log[i]]

RECURSIVE LogA(_), SeqA(_, _)
SeqA(ss, i) == IF i > Len(ss) THEN <<>> ELSE LogA(ss[i]) \o SeqA(ss, i + 1)
ReporterLogA(c, ss) == ClkEv(c) \o NormLog(ReadingOf(c), SeqA(ss, 1))
LogA(t) ==
    CASE t.k = "leaf" -> <<Ev("src", t.id, 0, NoX)>>
                         \o [i \in 1..Len(t.script) |-> Ev("m", t.id, i, t.script[i])]
      [] t.k = "none" -> <<>>
      [] t.k \in {"and", "or"} -> LogA(t.l) \o LogA(t.r)
      [] t.k = "reporter" -> ReporterLogA(t.clock, t.srcs)
      [] OTHER -> LogA(t.x)

-----------------------------------------------------------------------------
(* Level B *)
BofX(x) == IF x.kind = "none" THEN NoneB ELSE IF x.kind = "range" THEN RangeB(x.start, x.end) ELSE PointB(x.end)
XofB(b) == IF b.isnone THEN NoX ELSE IF b.isr THEN RangeX(b.start, b.end) ELSE PointX(b.end)

\* fn normalize_range(now, range) -> Option<Range>
NormalizeRangeB(now, r) ==
    LET len == SinceB(r[2], r[1])                              \* range.end.duration_since(range.start)?
    IN IF len = Absent THEN Absent
       ELSE LET start == MinusB(now, len)                      \* now.checked_sub(len)?
            IN IF start = Absent THEN Absent ELSE <<start, now>>

\* TimeNormalizer::metric
NormB(now, b) ==
    IF now = Absent THEN b                                     \* else { self.inner.metric(metric) }
    ELSE LET r == IF b.isnone THEN Absent ELSE AsRangeB(b)     \* extent.and_then(|e| e.as_range())
         IN IF r # Absent
            THEN LET n == NormalizeRangeB(now, r)
                 IN IF n # Absent THEN RangeB(n[1], n[2]) ELSE RangeB(r[1], r[2])
            ELSE PointB(now)

\* the stack of normalisers a sample passes, innermost first
RECURSIVE Through(_, _)
Through(norms, b) == IF norms = <<>> THEN b ELSE Through(Tail(norms), NormB(Head(norms), b))

RECURSIVE LogB(_, _), SeqB(_, _, _)
SeqB(ss, i, norms) == IF i > Len(ss) THEN <<>> ELSE LogB(ss[i], norms) \o SeqB(ss, i + 1, norms)
ReporterLogB(c, ss, norms) ==
    \* let sampler = TimeNormalizer::new(self.clock.now(), sampler); for source in &self.sources { .. }
    ClkEv(c) \o SeqB(ss, 1, <<ReadingOf(c)>> \o norms)
LogB(t, norms) ==
    CASE t.k = "leaf" -> <<Ev("src", t.id, 0, NoX)>>
                         \o [i \in 1..Len(t.script) |->
                                Ev("m", t.id, i, XofB(Through(norms, BofX(t.script[i]))))]
      [] t.k = "none" -> <<>>                                  \* if let Some(source) = self
      [] t.k \in {"and", "or"} -> LogB(t.l, norms) \o LogB(t.r, norms)
      [] t.k = "reporter" -> ReporterLogB(t.clock, t.srcs, norms)
      [] OTHER -> LogB(t.x, norms)                             \* (**self).sample_metrics(sampler)

-----------------------------------------------------------------------------
Init ==
    /\ scen \in Scens
    /\ srcs = <<>>
    /\ clock = System
    /\ nadds = 0 /\ nops = 0
    /\ fresh = FALSE
    /\ out = <<>>
    /\ hist = <<>>

AddSource(t) ==
    /\ nops < MaxOps(scen) /\ nadds < MaxAdds(scen)
    /\ srcs' = Append(srcs, t)                                 \* self.sources.push(Box::new(source))
    /\ nadds' = nadds + 1 /\ nops' = nops + 1
    /\ fresh' = FALSE /\ out' = <<>>
    /\ hist' = Append(hist, [op |-> "add", tree |-> t])
    /\ UNCHANGED <<scen, clock>>

SetClock(c) ==
    /\ nops < MaxOps(scen)
    /\ c # clock
    /\ clock' = c
    /\ nops' = nops + 1
    /\ fresh' = FALSE /\ out' = <<>>
    /\ hist' = Append(hist, [op |-> "clock", clock |-> c])
    /\ UNCHANGED <<scen, srcs, nadds>>

Sample ==
    /\ nops < MaxOps(scen)
    /\ out' = ReporterLogB(clock, srcs, <<>>)
    /\ fresh' = TRUE
    /\ nops' = nops + 1
    /\ hist' = Append(hist, [op |-> "sample", system |-> clock.m = "system",
                             want |-> ReporterLogA(clock, srcs)])
    /\ UNCHANGED <<scen, srcs, clock, nadds>>

\* (guards first: the sets are large)
AddAny == nops < MaxOps(scen) /\ nadds < MaxAdds(scen) /\ \E t \in Addable(scen) : AddSource(t)
ClockAny == nops < MaxOps(scen) /\ \E c \in ClocksOf(scen) : SetClock(c)
Next == AddAny \/ ClockAny \/ Sample

Spec == Init /\ [][Next]_vars

-----------------------------------------------------------------------------
(* Properties *)

\* the code's log is the statement's log
RefinesA == fresh => out = ReporterLogA(clock, srcs)

RECURSIVE LeavesOf(_), LeavesSeq(_, _)
LeavesSeq(ss, i) == IF i > Len(ss) THEN <<>> ELSE LeavesOf(ss[i]) \o LeavesSeq(ss, i + 1)
LeavesOf(t) ==
    CASE t.k = "leaf" -> <<t>>
      [] t.k = "none" -> <<>>
      [] t.k \in {"and", "or"} -> LeavesOf(t.l) \o LeavesOf(t.r)
      [] t.k = "reporter" -> LeavesSeq(t.srcs, 1)
      [] OTHER -> LeavesOf(t.x)

Top == [k |-> "reporter", clock |-> clock, srcs |-> srcs]
SelSeq(s, T(_)) == LET F[i \in 0..Len(s)] == IF i = 0 THEN <<>> ELSE IF T(s[i]) THEN Append(F[i - 1], s[i]) ELSE F[i - 1]
                   IN F[Len(s)]
IsSrc(e) == e.t = "src"
IsM(e) == e.t = "m"

\* every registered source is sampled exactly once per call, in registration order
EverySourceOnceInOrder ==
    fresh => LET got == SelSeq(out, IsSrc) IN
             /\ Len(got) = Len(LeavesOf(Top))
             /\ \A i \in 1..Len(got) : got[i].id = LeavesOf(Top)[i].id

\* every sample of every source reaches the sampler exactly once, in order, right after its source was invoked
EverySampleOnce ==
    fresh => LET evs == SelSeq(out, LAMBDA e : e.t # "clk")
                 want == ConcatMap(LAMBDA l : <<[id |-> l.id, idx |-> 0]>>
                                       \o [i \in 1..Len(l.script) |-> [id |-> l.id, idx |-> i]], LeavesOf(Top))
             IN [i \in 1..Len(evs) |-> [id |-> evs[i].id, idx |-> evs[i].idx]] = want

\* with a reading, every sample leaves with an extent; what was not a range is the point now;
\* a range ends at now and keeps its length, or is the original range
NormalisedShape ==
    fresh /\ ReadingOf(clock) # Absent =>
        LET now == ReadingOf(clock)
            ms == SelSeq(out, IsM)
        IN \A i \in 1..Len(ms) :
              /\ ms[i].x.kind # "none"
              /\ ms[i].x.kind = "point" => ms[i].x.end = now
              /\ ms[i].x.kind = "range" =>
                    \/ ms[i].x.end = now /\ LeI(ms[i].x.start, now)
                    \/ ~LeI(ms[i].x.start, ms[i].x.end)                            \* backwards original kept
                    \/ MinusA(now, SinceA(ms[i].x.end, ms[i].x.start)) = Absent    \* would start before the epoch

\* without a reading nothing is touched
Untouched ==
    fresh /\ ReadingOf(clock) = Absent =>
        SelSeq(out, IsM) = SelSeq(SeqA(srcs, 1), IsM)

\* a configured clock is read exactly once per sampled reporter, the outermost first
RECURSIVE NFixed(_), NFixedSeq(_, _)
NFixedSeq(ss, i) == IF i > Len(ss) THEN 0 ELSE NFixed(ss[i]) + NFixedSeq(ss, i + 1)
NFixed(t) ==
    CASE t.k \in {"leaf", "none"} -> 0
      [] t.k \in {"and", "or"} -> NFixed(t.l) + NFixed(t.r)
      [] t.k = "reporter" -> (IF t.clock.m = "fixed" THEN 1 ELSE 0) + NFixedSeq(t.srcs, 1)
      [] OTHER -> NFixed(t.x)
ClockReadOnce ==
    fresh => /\ Len(SelSeq(out, LAMBDA e : e.t = "clk")) = NFixed(Top)
             /\ clock.m = "fixed" => out[1].t = "clk"

EmitReplay == Emit => PrintT(<<"REPLAY", ToJson([scen |-> scen', ops |-> hist'])>>)
=============================================================================
