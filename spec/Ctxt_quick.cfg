\* C03 quick (wide): 2 threads; instances default(), default(), setup()-built runtime context, shared(), shared() (storages 1,2,3,0,0);
\* keys a,b with property maps {a:1},{a:2,b:1}; kinds push/root/disabled/current; forms guard/call/with/in_future; <= 2 frames, 1 task, nesting <= 2, panics; every transition replayed.
SPECIFICATION Spec
CONSTANTS
    NThreads = 2
    StoreOf <- MC_StoreQ
    InstKind <- MC_KindQ
    NKeys = 2
    PropChoices <- MC_Props2
    DupChoices <- MC_NoDups
    Kinds <- MC_AllKinds
    Forms <- MC_AllForms
    MaxFrames = 2
    MaxTasks = 1
    MaxDepth = 2
    Panics = TRUE
    Discards = FALSE
    Emit = TRUE
VIEW cview
INVARIANTS InnermostWins NoTrace StackOK
PROPERTIES ExitRestores Isolation
ACTION_CONSTRAINT EmitReplay
CHECK_DEADLOCK FALSE
