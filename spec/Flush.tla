------------------------------- MODULE Flush -------------------------------
(***************************************************************************)
(* C07, carry-through of flush through destination combinators             *)
(* (core/src/emitter.rs, core/src/and.rs, core/src/runtime.rs).            *)
(*                                                                         *)
(* A destination tree reports a successful flush exactly when every leaf   *)
(* destination it contains reports one; every leaf is flushed exactly      *)
(* once, left to right, also when an earlier one failed (no short cut);    *)
(* the time budget handed to the leaves never adds up to more than the     *)
(* caller's timeout.  Wrappers (Option, &, Box, Arc, erased, wrap) are     *)
(* transparent; an absent optional destination has nothing to flush.       *)
(*                                                                         *)
(* Level A: the statement (FlushA).  Level B: the recursion of the code    *)
(* (FlushB: `And` halves the timeout, flushes left then right, returns     *)
(* lhs && rhs).  One behaviour = pick a tree and the leaves' answers,      *)
(* flush, observe.                                                         *)
(***************************************************************************)
EXTENDS Naturals, Sequences, FiniteSets, TLC, Json

CONSTANTS LeafIds,   \* e.g. {1, 2, 3}
          Depth,     \* nesting bound
          Timeout,   \* caller's timeout in ms (a power of two)
          Emit

Wrappers == {"some", "ref", "box", "arc", "erased", "wrap"}

Leaf(i) == [k |-> "leaf", id |-> i]
NoneT == [k |-> "none"]
RECURSIVE Trees(_)
Trees(n) ==
    IF n = 0 THEN {Leaf(i) : i \in LeafIds} \cup {NoneT}
    ELSE LET S == Trees(n - 1) IN
         S \cup {[k |-> "and", l |-> a, r |-> b] : a \in S, b \in S}
           \cup {[k |-> w, t |-> a] : w \in Wrappers, a \in S}

RECURSIVE LeavesOf(_)
LeavesOf(t) ==
    IF t.k = "leaf" THEN <<t.id>>
    ELSE IF t.k = "none" THEN <<>>
    ELSE IF t.k = "and" THEN LeavesOf(t.l) \o LeavesOf(t.r)
    ELSE LeavesOf(t.t)

\* each leaf id at most once, so calls can be attributed
Distinct(t) == LET ls == LeavesOf(t) IN \A i, j \in 1..Len(ls) : i # j => ls[i] # ls[j]

VARIABLES tree, answer, phase, result, calls
vars == <<tree, answer, phase, result, calls>>

(* Level A *)
FlushA(t, ans) == \A i \in 1..Len(LeavesOf(t)) : ans[LeavesOf(t)[i]]

(* Level B: <<result, calls>>, calls = sequence of [leaf, timeout] *)
RECURSIVE FlushB(_, _, _)
FlushB(t, ans, timeout) ==
    IF t.k = "leaf" THEN <<ans[t.id], <<[leaf |-> t.id, timeout |-> timeout]>>>>
    ELSE IF t.k = "none" THEN <<TRUE, <<>>>>
    ELSE IF t.k = "and" THEN
        LET half == timeout \div 2
            l == FlushB(t.l, ans, half)
            r == FlushB(t.r, ans, half)
        IN <<l[1] /\ r[1], l[2] \o r[2]>>
    ELSE FlushB(t.t, ans, timeout)

Init ==
    /\ tree \in {t \in Trees(Depth) : Distinct(t)}
    /\ answer \in [LeafIds -> BOOLEAN]
    /\ phase = "ready" /\ result = FALSE /\ calls = <<>>

DoFlush ==
    /\ phase = "ready"
    /\ LET r == FlushB(tree, answer, Timeout) IN result' = r[1] /\ calls' = r[2]
    /\ phase' = "done"
    /\ UNCHANGED <<tree, answer>>

Next == DoFlush
Spec == Init /\ [][Next]_vars

RECURSIVE SumT(_)
SumT(cs) == IF cs = <<>> THEN 0 ELSE Head(cs).timeout + SumT(Tail(cs))

FlushIsConjunction == phase = "done" => result = FlushA(tree, answer)
EveryLeafOnceInOrder ==
    phase = "done" => [i \in 1..Len(calls) |-> calls[i].leaf] = LeavesOf(tree)
BudgetRespected == phase = "done" => SumT(calls) <= Timeout
\* a leaf is never handed a zero budget while the caller gave time (depth bound keeps 2^d <= Timeout)
LeafGetsTime == phase = "done" => \A i \in 1..Len(calls) : calls[i].timeout > 0

EmitReplay ==
    Emit => PrintT(<<"REPLAY", ToJson([tree |-> tree', answer |-> answer', timeout |-> Timeout,
                                       result |-> result', calls |-> calls'])>>)
=============================================================================
