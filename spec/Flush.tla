------------------------------- MODULE Flush -------------------------------
(***************************************************************************)
(* C07, carry-through of flush through destination combinators             *)
(* (core/src/emitter.rs, core/src/and.rs, core/src/runtime.rs).            *)
(*                                                                         *)
(* A destination tree reports a successful flush exactly when every leaf   *)
(* destination it contains reports one; every leaf is flushed exactly      *)
(* once, left to right, also when an earlier one failed (no short cut);    *)
(* the time budget handed to the leaves never adds up to more than the     *)
(* caller's timeout.  Wrappers (Option, &, Box, Arc, erased, wrap) are     *)
(* transparent; an absent optional destination has nothing to flush.       *)
(*                                                                         *)
(* Level A: the statement (FlushA).  Level B: the recursion of the code    *)
(* (FlushB: `And` halves the timeout, flushes left then right, returns     *)
(* lhs && rhs).  One behaviour = pick a tree, the leaves' answers and the  *)
(* way the request reaches the tree (entry), flush, observe.               *)
(*                                                                         *)
(* Entries (how a flush request reaches the destination tree):             *)
(*   direct, erased          the tree itself / type-erased once more       *)
(*   runtime                 Runtime::build(tree, ..) as Emitter           *)
(*   default_rt              Runtime::default().with_emitter(tree)         *)
(*   init_runtime            Setup::emit_to(tree).init_runtime()           *)
(*   map_emitter             Setup::map_emitter(|_| tree).init_runtime()   *)
(*   and_emit_to             Setup::and_emit_to(tree).init_runtime(): the  *)
(*                           tree is the right half of And<default, tree>  *)
(*   -- a slot of one's own, initialised by Setup::emit_to(tree):          *)
(*   init_flush              Init::blocking_flush                          *)
(*   init_get                Init::get() as Emitter                        *)
(*   slot_get                AmbientSlot::get() as Emitter                 *)
(*   guard_drop              Init::flush_on_drop(t), InitGuard::inner,     *)
(*                           drop of the guard (no result to look at)      *)
(*   guard_unwind            the same, the guard dropped by a panic        *)
(*                           unwinding through its scope                   *)
(*   uninit                  the slot was never initialised (inert)        *)
(*   lost                    the slot was taken before: try_init_slot      *)
(*                           reports failure, no guard comes to exist, the *)
(*                           tree is not part of the runtime               *)
(*   -- the process-global shared slot (one process per case):             *)
(*   shared                  Setup::init(), then emit::blocking_flush      *)
(*   shared_guard            Setup::init().flush_on_drop(t) dropped by a   *)
(*                           panic unwinding through it                    *)
(*   shared_uninit           emit::blocking_flush, nothing initialised     *)
(***************************************************************************)
EXTENDS Naturals, Sequences, FiniteSets, TLC, Json

CONSTANTS LeafIds,   \* e.g. {1, 2, 3}
          Depth,     \* nesting bound
          Timeout,   \* caller's timeout in ms (a power of two)
          Entries,   \* subset of AllEntries
          DeepEntries,   \* the entries explored with trees up to Depth, ...
          ShallowDepth,  \* ... the others with trees up to this depth
          Emit

AllEntries == {"direct", "erased", "runtime", "default_rt", "init_runtime", "map_emitter",
               "and_emit_to", "init_flush", "init_get", "slot_get", "guard_drop", "guard_unwind",
               "uninit", "lost", "shared", "shared_guard", "shared_uninit"}
ASSUME Entries \subseteq AllEntries /\ DeepEntries \subseteq Entries /\ ShallowDepth <= Depth
\* the tree never became part of the runtime the request goes to
NotInstalled == {"uninit", "lost", "shared_uninit"}
\* the flush happens in a destructor: there is no result to look at
NoResult == {"guard_drop", "guard_unwind", "shared_guard"}

Wrappers == {"some", "ref", "box", "arc", "erased", "wrap"}

Leaf(i) == [k |-> "leaf", id |-> i]
NoneT == [k |-> "none"]
RECURSIVE Trees(_)
Trees(n) ==
    IF n = 0 THEN {Leaf(i) : i \in LeafIds} \cup {NoneT}
    ELSE LET S == Trees(n - 1) IN
         S \cup {[k |-> "and", l |-> a, r |-> b] : a \in S, b \in S}
           \cup {[k |-> w, t |-> a] : w \in Wrappers, a \in S}

RECURSIVE LeavesOf(_)
LeavesOf(t) ==
    IF t.k = "leaf" THEN <<t.id>>
    ELSE IF t.k = "none" THEN <<>>
    ELSE IF t.k = "and" THEN LeavesOf(t.l) \o LeavesOf(t.r)
    ELSE LeavesOf(t.t)

\* each leaf id at most once, so calls can be attributed
Distinct(t) == LET ls == LeavesOf(t) IN \A i, j \in 1..Len(ls) : i # j => ls[i] # ls[j]

VARIABLES tree, answer, entry, phase, result, calls
vars == <<tree, answer, entry, phase, result, calls>>

(* Level A: the destinations a request through entry e reaches, and the answer it is due *)
Reached(e, t) == IF e \in NotInstalled THEN <<>> ELSE LeavesOf(t)
FlushA(e, t, ans) == \A i \in 1..Len(Reached(e, t)) : ans[Reached(e, t)[i]]

(* Level B: <<result, calls>>, calls = sequence of [leaf, timeout] *)
RECURSIVE FlushB(_, _, _)
FlushB(t, ans, timeout) ==
    IF t.k = "leaf" THEN <<ans[t.id], <<[leaf |-> t.id, timeout |-> timeout]>>>>
    ELSE IF t.k = "none" THEN <<TRUE, <<>>>>
    ELSE IF t.k = "and" THEN
        LET half == timeout \div 2
            l == FlushB(t.l, ans, half)
            r == FlushB(t.r, ans, half)
        IN <<l[1] /\ r[1], l[2] \o r[2]>>
    ELSE FlushB(t.t, ans, timeout)

\* level B: the destination the request actually meets.  An empty slot answers with the
\* constant empty runtime and the loser's tree is dropped unused (nothing to flush);
\* and_emit_to puts the tree next to the default (empty) emitter under an And.
Met(e, t) ==
    IF e \in NotInstalled THEN NoneT
    ELSE IF e = "and_emit_to" THEN [k |-> "and", l |-> NoneT, r |-> t]
    ELSE t

LeafSet(t) == {LeavesOf(t)[i] : i \in 1..Len(LeavesOf(t))}

Init ==
    /\ entry \in Entries
    /\ tree \in {t \in Trees(IF entry \in DeepEntries THEN Depth ELSE ShallowDepth) : Distinct(t)}
    \* the answer of a destination that is not in the tree is immaterial: fixed
    /\ answer \in {a \in [LeafIds -> BOOLEAN] : \A i \in LeafIds \ LeafSet(tree) : a[i]}
    /\ phase = "ready" /\ result = FALSE /\ calls = <<>>

DoFlush ==
    /\ phase = "ready"
    /\ LET r == FlushB(Met(entry, tree), answer, Timeout) IN result' = r[1] /\ calls' = r[2]
    /\ phase' = "done"
    /\ UNCHANGED <<tree, answer, entry>>

Next == DoFlush
Spec == Init /\ [][Next]_vars

RECURSIVE SumT(_)
SumT(cs) == IF cs = <<>> THEN 0 ELSE Head(cs).timeout + SumT(Tail(cs))

FlushIsConjunction == phase = "done" => result = FlushA(entry, tree, answer)
EveryLeafOnceInOrder ==
    phase = "done" => [i \in 1..Len(calls) |-> calls[i].leaf] = Reached(entry, tree)
BudgetRespected == phase = "done" => SumT(calls) <= Timeout
\* a leaf is never handed a zero budget while the caller gave time (depth bound keeps 2^d <= Timeout)
LeafGetsTime == phase = "done" => \A i \in 1..Len(calls) : calls[i].timeout > 0

EmitReplay ==
    Emit => PrintT(<<"REPLAY", ToJson([tree |-> tree', answer |-> answer', timeout |-> Timeout,
                                       entry |-> entry', seen |-> entry' \notin NoResult,
                                       result |-> result', calls |-> calls'])>>)
=============================================================================
