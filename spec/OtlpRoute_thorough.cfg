\* C14 thorough: 19 kind spellings/value forms (7 forms each of span and metric) x 5 extents (incl. empty and backwards ranges) x 22 metric value classes (incl. zero / cancelling totals) x 5 aggregations x the 8 signal
\* subsets = 83600 abstract events; replayed over HTTP/protobuf, HTTP/JSON+gzip and gRPC+gzip.
SPECIFICATION Spec
CONSTANTS
    Kinds = {"absent", "other", "int", "SPAN", "padMetric", "span", "typedSpan", "spanTypedOwned", "spanStrOwned", "spanDisplay", "spanFromDisplay", "spanString", "metric", "typedMetric", "metricTypedOwned", "metricStrOwned", "metricDisplay", "metricFromDisplay", "metricString"}
    Extents = {"none", "point", "range", "emptyRange", "backRange"}
    Vals = {"i64", "f64", "u64big", "u64small", "i128small", "i128big", "seqi", "seqf", "i64zero", "f64zero", "f64negzero", "seqiZeros", "seqiCancel", "seqfZeros", "seqfCancel", "emptySeq", "nestedSeq", "textSeq", "text", "bool", "null", "missing"}
    Aggs = {"count", "sum", "last", "missing", "other"}
    Emit = TRUE
INVARIANTS TypeOK ZeroTotalsRouteLikeTwins RouteRefines DiscardCounted OnlyConfigured
PROPERTY SentOnce
ACTION_CONSTRAINT EmitReplay
CHECK_DEADLOCK FALSE
