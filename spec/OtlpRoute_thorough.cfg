\* C14 thorough: 19 kind spellings/value forms (7 forms each of span and metric) x 5 extents (incl. empty and backwards ranges) x 11 metric value shapes x 5 aggregations x the 8 signal
\* subsets = 41800 abstract events; replayed over HTTP/protobuf, HTTP/JSON+gzip and gRPC+gzip.
SPECIFICATION Spec
CONSTANTS
    Kinds = {"absent", "other", "int", "SPAN", "padMetric", "span", "typedSpan", "spanTypedOwned", "spanStrOwned", "spanDisplay", "spanFromDisplay", "spanString", "metric", "typedMetric", "metricTypedOwned", "metricStrOwned", "metricDisplay", "metricFromDisplay", "metricString"}
    Extents = {"none", "point", "range", "emptyRange", "backRange"}
    Vals = {"i64", "f64", "u64big", "seqi", "seqf", "emptySeq", "nestedSeq", "textSeq", "text", "bool", "missing"}
    Aggs = {"count", "sum", "last", "missing", "other"}
    Emit = TRUE
INVARIANTS TypeOK RouteRefines DiscardCounted OnlyConfigured
PROPERTY SentOnce
ACTION_CONSTRAINT EmitReplay
CHECK_DEADLOCK FALSE
