\* C16 self-test: the transcription of Template::eq with only the F13 half of the repair (str slices kept) on the
\* quick domain; CursorRefinesEqual must be violated.
SPECIFICATION Spec
CONSTANTS
    Chars = {"a", "é"}
    CharBytes <- MC_CharBytes
    Labels = {"x", "y"}
    MaxFragLen = 2
    MaxParts = 2
    Algo = "skipfix"
INVARIANTS CursorRefinesEqual
CHECK_DEADLOCK FALSE
