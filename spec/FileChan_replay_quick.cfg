\* C09 FileChan replay quick: capacity 2, <= 9 operations, the behaviours of an eager worker (takes as soon as it is idle and something is pending); one REPLAY line per transition.
SPECIFICATION Spec
CONSTANTS
    Capacity = 2
    MaxOps = 9
    LazyClear = FALSE
    Emit = TRUE
VIEW view
INVARIANTS TypeOK LenRefines PendingBounded StoreBounded StoreIsPending
ACTION_CONSTRAINT Eager EmitReplay
CHECK_DEADLOCK FALSE
