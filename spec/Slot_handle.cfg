\* C20 handle phase: 2 racing initialisers (try_init_slot / init_slot), 1 observer with one
\* operation out of {is_enabled, probe}; the successful initialiser makes up to 2 operations
\* through its Init handle out of {h_probe, h_flush, h_guard_drop}; all interleavings.
SPECIFICATION Spec
CONSTANTS
    Inits = {1, 2}
    Observers = {1}
    InitKinds = {"try_init_slot", "init_slot"}
    ObsOps = {"is_enabled", "probe"}
    MaxObs = 1
    HandleOps = {"h_probe", "h_flush", "h_guard_drop"}
    MaxHandle = 2
    Design = "oncelock"
INVARIANTS TypeOK AtMostOneWinner ExactlyOneWinner LosersNeverReceive AllFiveTogether
    EnabledMeansInstalled InertBefore Stable HandleIsInstalled
CHECK_DEADLOCK FALSE
