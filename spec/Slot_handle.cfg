\* C20 handle phase: 2 racing initialisers (try_init_slot / init_slot / AmbientSlot::init), each
\* building its configuration in one of the Setup forms emit_to, and_emit_to, emit_to + and_emit_to resp. the
\* Runtime forms build, init_runtime over two emitters (one form of each class (destinations, budget split);
\* the trace check SlotTrace.cfg has all eight); 1 observer with one operation out of {probe, flush}; a Setup-form initialiser
\* makes up to 2 operations through what it was handed out of {h_probe, h_flush, h_guard_drop,
\* h_guard_unwind} (a loser: the guard operations only); all interleavings.
SPECIFICATION Spec
CONSTANTS
    Inits = {1, 2}
    Observers = {1}
    InitKinds = {"try_init_slot", "init_slot", "slot_init"}
    ObsOps = {"probe", "flush"}
    MaxObs = 1
    Forms = {"emit_to", "and_emit_to", "emit_to_and", "build", "init_runtime_and"}
    HandleOps = {"h_probe", "h_flush", "h_guard_drop", "h_guard_unwind"}
    MaxHandle = 2
    Design = "oncelock"
INVARIANTS TypeOK AtMostOneWinner ExactlyOneWinner LosersNeverReceive AllFiveTogether
    EnabledMeansInstalled InertBefore Stable HandleIsInstalled GuardInertWhenLost WholeEmitter
CHECK_DEADLOCK FALSE
