\* C19 thorough: as quick with paths of length <= 4, every case on 2 further seeded draws.
SPECIFICATION Spec
CONSTANTS
    MaxSteps = 4
    ExhaustUpTo = 1
    Emit = TRUE
INVARIANTS TypeOK Preserved PresenceNeverLost TypedSurvivesBuffering StructureSurvivesBuffering DirectReadKeepsAll
PROPERTY ReadersAgree
ACTION_CONSTRAINT EmitReplay
CHECK_DEADLOCK FALSE
