\* C19 thorough: as quick with paths of length <= 4, every case on 2 further seeded draws.
\* + mode from_value (hand-built properties: Value::from of primitives / &String / &Cow / Option / &[T; N], to_value of
\* dyn Display / dyn Debug / dyn Error / [T; N]); typed read paths as_f64, to_borrowed_str, cast::<&str>, cast::<String>,
\* cast::<&dyn Error> where the call site promises the typed component.
\* + every Display / Debug observation under the plain formatter and 8 formatter flag families (alternate, width, fill,
\* precision, width+precision, sign, zero-pad, hex-debug), incl. flagged template holes.
\* + attribute order: a true #[cfg(all())] before / after the capture attribute(s) of a pair, and between #[emit::optional] and the mode.
SPECIFICATION Spec
CONSTANTS
    MaxSteps = 4
    ExhaustUpTo = 1
    Emit = TRUE
INVARIANTS TypeOK Preserved PresenceNeverLost TypedSurvivesBuffering StructureSurvivesBuffering DirectReadKeepsAll
PROPERTY ReadersAgree
ACTION_CONSTRAINT EmitReplay
CHECK_DEADLOCK FALSE
