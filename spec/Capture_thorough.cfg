\* C19 thorough: every call site x every transformation path of length <= 5; the harness instantiates
\* every case 3 times from the value pool.
SPECIFICATION Spec
CONSTANTS
    MaxSteps = 5
    Emit = TRUE
INVARIANTS TypeOK Preserved PresenceNeverLost TypedSurvivesBuffering StructureSurvivesBuffering DirectReadKeepsAll
ACTION_CONSTRAINT EmitReplay
CHECK_DEADLOCK FALSE
