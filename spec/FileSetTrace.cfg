\* level-A monitor over a recorded trace (env TRACE); event sizes as in MCFileWorker.
SPECIFICATION TSpec
CONSTANTS
    EvSize <- MC_EvSize
POSTCONDITION TraceAccepted
CHECK_DEADLOCK FALSE
