\* C04 thorough (simulation): 2 threads, <= 4 spans, <= 5 frames, 2 tasks (sibling async spans interleaved at poll boundaries), nesting <= 3; random behaviours replayed. Span nodes with explicit trace_id / span_parent / span_id included.
SPECIFICATION SSpec
CONSTANTS
    NThreads = 2
    StoreOf <- MC_Store1
    InstKind <- MC_Kind1
    NKeys = 3
    PropChoices <- MC_None
    DupChoices <- MC_NoDups
    Kinds <- MC_None
    Forms <- MC_None
    MaxFrames = 5
    MaxTasks = 2
    MaxDepth = 3
    Panics = TRUE
    Discards = FALSE
    MaxSpans = 4
    IncomingKinds <- MC_IncAll
    WithLazy = TRUE
    HasRng = TRUE
    ExplicitKinds <- MC_ExBoth
    PushLastWins = FALSE
    WithCancel = TRUE
    CancelOwnIds = FALSE
    CtxForms <- MC_Forms
    Emit = TRUE
VIEW sview
INVARIANTS InnermostWins NoTrace StackOK FrameIds AmbientIds OneTrace ParentIsEnclosing EventCarriesInnermost IdsDistinct
PROPERTIES Revert
ACTION_CONSTRAINT SEmitReplay
CHECK_DEADLOCK FALSE
