\* X04 context quick: 2 threads, <= 3 frames, nesting <= 2, <= 7 operations; pushable traceparents {(1,1,01), (1,2,00), (-,-,fe)},
\* tracestates {"", "vendorname1=opaqueValue1"}, pairs {((2,1,03), "v2=b,vendorname1=c"), ((1,2,00), "")}; Frame::current. Exhaustive.
SPECIFICATION Spec
CONSTANTS
    NThreads = 2
    TPs <- TPsSmall
    TSs = {0, 1}
    Pairs <- PairsSmall
    TidHex <- MC_TidHex
    SidHex <- MC_SidHex
    MaxFrames = 3
    MaxDepth = 2
    MaxOps = 7
    Emit = TRUE
VIEW view
INVARIANTS CurrentIsInnermost FrameCarries HeaderRoundTrip
PROPERTIES Restored ThreadsApart
ACTION_CONSTRAINT EmitReplay
CHECK_DEADLOCK FALSE
