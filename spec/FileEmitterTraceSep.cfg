\* monitor of the whole rolling-file emitter over a recorded trace (env TRACE); scenarios with a multi-byte separator (8-byte records).
SPECIFICATION ESpec
CONSTANTS
    EvSize <- MC_EvSize
POSTCONDITION ETraceAccepted
CHECK_DEADLOCK FALSE
