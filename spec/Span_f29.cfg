\* C04 demonstration of finding F29 at model level: the model of the code as it is (CancelOwnIds = FALSE) must violate CancelCarriesOwnIds.
SPECIFICATION SSpec
CONSTANTS
    NThreads = 1
    StoreOf <- MC_Store1
    InstKind <- MC_Kind1
    NKeys = 3
    PropChoices <- MC_None
    DupChoices <- MC_NoDups
    Kinds <- MC_None
    Forms <- MC_None
    MaxFrames = 3
    MaxTasks = 1
    MaxDepth = 3
    Panics = TRUE
    Discards = FALSE
    MaxSpans = 3
    IncomingKinds <- MC_None
    WithLazy = TRUE
    HasRng = TRUE
    ExplicitKinds <- MC_ExNone
    PushLastWins = FALSE
    WithCancel = TRUE
    CancelOwnIds = FALSE
    CtxForms <- MC_Forms
    Emit = FALSE
VIEW sview
INVARIANTS CancelCarriesOwnIds
ACTION_CONSTRAINT SEmitReplay
CHECK_DEADLOCK FALSE
