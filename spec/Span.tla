-------------------------------- MODULE Span --------------------------------
(***************************************************************************)
(* C04 - nested spans form one consistent trace tree.                      *)
(*                                                                         *)
(* EXTENDS Ctxt: one context instance (the runtime's), property maps are   *)
(* the tuple <<trace_id, span_id, span_parent>> (0 = absent), and all      *)
(* frame mechanics (open/enter/exit/poll/yield as swaps, frames and tasks  *)
(* reachable from every thread) are the functions CxOpen/CxEnter/CxPop of  *)
(* Ctxt.tla.                                                               *)
(*                                                                         *)
(* Level B (the code): BeginSpan reads SpanCtxt::current from the ambient  *)
(* map (level B `act`), derives the child ids like SpanCtxt::new_child     *)
(* (trace inherited or drawn, parent = current span id, id drawn), asks    *)
(* the filter (verdict is nondeterministic), and opens a pushed frame with *)
(* the ids (enabled) or a disabled frame (rejected).  Completion re-reads  *)
(* the ambient map when it emits the span event; events carry the ambient  *)
(* map.                                                                    *)
(*                                                                         *)
(* Level A (the statement): every frame has a logical span context         *)
(* `ctxof` (no span / span i / the incoming ids), fixed at creation: an    *)
(* enabled span's frame is that span, every other frame (rejected span,    *)
(* Frame::current) is whatever enclosed its creation.  encl[i] is the      *)
(* nearest enabled ancestor by that definition.  A_Ids defines the ids     *)
(* the statement demands; it is the only oracle of the REPLAY lines.       *)
(*                                                                         *)
(* rng: the script is the repeat-free, zero-free sequence; since ids are   *)
(* compared up to a bijection the values are named by the span that draws  *)
(* them (trace 2i-1, span id 2i), which keeps isomorphic states equal.     *)
(***************************************************************************)
EXTENDS Ctxt

CONSTANTS
    MaxSpans,
    IncomingKinds,  \* subset of {"both", "trace", "span"}: Frame::push of incoming trace id + span id,
                    \* of a trace id alone, of a span id alone ({}: none)
    WithLazy,       \* BOOLEAN: offer async-fn spans (begin happens at the first poll)
    HasRng,         \* BOOLEAN: FALSE = a runtime without a random source
    ExplicitKinds,  \* subset of BOOLEAN: {FALSE} = ids always generated; TRUE in it: span nodes whose
                    \* macro names trace_id, span_parent and span_id explicitly (the control parameters
                    \* captured by CaptureTraceId / CaptureSpanId; documented: explicit ids take precedence)
    PushLastWins,   \* BOOLEAN, level B only: TRUE = within ONE pushed property set the last value of a
                    \* duplicate key wins (ThreadLocalCtxt::open_push inserts while iterating
                    \* ctxt_props.and_props(span_ctxt)) - the code as it is, so generated ids overwrite
                    \* explicit ones (finding F30); FALSE = the first value wins, as documented
    WithCancel,     \* BOOLEAN: offer dropping a suspended async span (cancellation)
    CancelOwnIds,   \* BOOLEAN, level B only: TRUE = a span completing from its guard's Drop outside its
                    \* frame uses the ids stored in the guard; FALSE = it uses whatever is ambient where
                    \* it is dropped - the code as it is (open finding F29)
    CtxForms        \* the forms in which the runtime's context is used: "value" (C), "ref" (&C),
                    \* "option" (Option<C>), "box" (Box<C>), "arc" (Arc<C>), "dyn" (Box<dyn ErasedCtxt +
                    \* Send + Sync>, through dyn ErasedCtxt's dispatch table), "ambient" (the type-erased
                    \* runtime emit::setup()..init_slot(..) installs)

Spans == 1..MaxSpans
INC == MaxSpans + 1           \* logical context "the incoming trace id and span id"
INCT == MaxSpans + 2          \* logical context "an incoming trace id, no span id"
INCS == MaxSpans + 3          \* logical context "an incoming span id, no trace id"
IsInc(x) == x \in {INC, INCT, INCS}
IN_TR == 2 * MaxSpans + 1     \* incoming trace id
IN_SP == 2 * MaxSpans + 2     \* incoming span id
\* HasRng = FALSE: the runtime has no random source (Option::None / Empty as Rng): nothing can be
\* drawn, spans have no ids of their own (the statement's "non-zero and distinct" presupposes a
\* source); everything else must still hold with absent ids
DrawTrace(i) == IF HasRng THEN 2 * i - 1 ELSE 0
DrawSpan(i) == IF HasRng THEN 2 * i ELSE 0
\* ids given explicitly to span i by the program (chosen by the environment, like incoming ids)
ExTr(i) == 4 * MaxSpans + 10 + 3 * i
ExId(i) == 4 * MaxSpans + 11 + 3 * i
ExPa(i) == 4 * MaxSpans + 12 + 3 * i

(***************************************************************************)
(* Context forms.  The statement does not depend on the form, so level A is *)
(* the same for all of them and every form has to refine it.  Level B: each *)
(* wrapper forwards every operation of Ctxt to the wrapped context          *)
(* unchanged (core/src/ctxt.rs: impl Ctxt for &C / Option<C> / Box<C> /     *)
(* Arc<C> / dyn ErasedCtxt [+ Send + Sync], DispatchCtxt) - in particular   *)
(* open_disabled stays open_disabled (a rejected span's frame must not      *)
(* become a pushed one, nor a push of nothing where the wrapped context     *)
(* distinguishes the two).  Every program of this specification is replayed *)
(* through the forms in rotation (the program number picks the form).       *)
(***************************************************************************)
AllCtxForms == {"value", "ref", "option", "box", "arc", "dyn", "ambient", "norng"}
OpenKinds == {"push", "root", "disabled"}
FormOpen(form, kind) == kind        \* what the wrapped context is asked to open
ASSUME CtxForms \subseteq AllCtxForms /\ CtxForms # {}
ASSUME \A form \in CtxForms, kind \in OpenKinds : FormOpen(form, kind) = kind

VARIABLES
    sp,       \* span i: [st, en, ids (level B: what new_child computed), encl (level A)]
    fsp,      \* frame -> span whose guard travels with the frame (0: none)
    ctxof,    \* frame -> level-A logical span context: 0 | span | INC | INCT | INCS
    lazy,     \* task -> "lazy": an async-fn span that has not been polled yet (nothing has begun);
              \*         "polled": it has been polled (its span is started, it is suspended when idle);
              \*         "plain": wrapped in in_future, not polled yet
    em        \* records emitted by the last step

svars == <<cx, hist, sp, fsp, ctxof, lazy, em>>
sview == <<cx, sp, fsp, ctxof, lazy, em>>

NoSpan == [st |-> "none", en |-> FALSE, ids |-> <<0, 0, 0>>, encl |-> 0, ex |-> FALSE]

-----------------------------------------------------------------------------
(* Level A *)
LogicalCtx(c, co, t) == IF c.stk[t] = <<>> THEN 0 ELSE co[Top(c, t).f]

RECURSIVE A_Trace(_, _)
A_Trace(s, x) == IF x = 0 \/ x = INCS THEN 0
                 ELSE IF x = INC \/ x = INCT THEN IN_TR
                 ELSE IF s[x].ex THEN ExTr(x)                                 \* explicit ids take precedence
                 ELSE IF s[x].encl = 0 \/ s[x].encl = INCS THEN DrawTrace(x)   \* outermost span: its own trace
                 ELSE A_Trace(s, s[x].encl)                                   \* the outermost span's / the incoming trace id
A_Id(s, x) == IF x = 0 \/ x = INCT THEN 0 ELSE IF x = INC \/ x = INCS THEN IN_SP
              ELSE IF s[x].ex THEN ExId(x) ELSE DrawSpan(x)
A_Parent(s, x) == IF x = 0 \/ IsInc(x) THEN 0 ELSE IF s[x].ex THEN ExPa(x) ELSE A_Id(s, s[x].encl)
A_Ids(s, x) == <<A_Trace(s, x), A_Id(s, x), A_Parent(s, x)>>

SObs(c, s, co) == [t \in Threads |-> A_Ids(s, LogicalCtx(c, co, t))]

-----------------------------------------------------------------------------
\* the root of the tree a logical context belongs to
RECURSIVE RootOf(_)
RootOf(x) == IF x = 0 \/ IsInc(x) THEN x
             ELSE IF sp[x].ex THEN x                                  \* its explicit trace id starts a tree
             ELSE IF sp[x].encl = 0 \/ sp[x].encl = INCS THEN x      \* nothing gives it a trace id: it starts one
             ELSE RootOf(sp[x].encl)
TraceOfRoot(x) == IF x = INC \/ x = INCT THEN IN_TR ELSE IF x = 0 \/ x = INCS THEN 0 ELSE sp[x].ids[1]

SLog(rec) == hist' = Append(hist, rec @@ [emits |-> em', exp |-> SObs(cx', sp', ctxof')])

FreeSpans == {i \in Spans : sp[i].st = "none"}
NextSpan == SetMin(FreeSpans)

\* level B: SpanCtxt::current(ctxt).new_child(rng) on thread t, for span i
Child(t, i) ==
    LET cur == cx.act[t][1] IN
    <<IF cur[1] # 0 THEN cur[1] ELSE DrawTrace(i), DrawSpan(i), cur[2]>>

\* SpanGuard::new: the span record and the frame (pushed with ids / disabled)
\* level B: ctxt_props.and_props(span_ctxt) - the explicit properties come first and win
SpanIds(t, i, x) ==
    IF ~x THEN Child(t, i)
    ELSE IF PushLastWins
         THEN <<Child(t, i)[1], Child(t, i)[2], IF Child(t, i)[3] # 0 THEN Child(t, i)[3] ELSE ExPa(i)>>
         ELSE <<ExTr(i), ExId(i), ExPa(i)>>
SpanRecX(t, i, v, x) == [st |-> "live", en |-> v, ids |-> SpanIds(t, i, x), encl |-> LogicalCtx(cx, ctxof, t), ex |-> x]
SpanRec(t, i, v) == SpanRecX(t, i, v, FALSE)
OpenSpanFrameX(c, t, i, v, x) ==
    IF v THEN CxOpen(c, t, 1, "push", SpanIds(t, i, x)) ELSE CxOpen(c, t, 1, "disabled", SpanIds(t, i, x))
OpenSpanFrame(c, t, i, v) == OpenSpanFrameX(c, t, i, v, FALSE)
CtxOfSpan(t, i, v) == IF v THEN i ELSE LogicalCtx(cx, ctxof, t)

\* the event a completion / emit! produces on thread t: ambient ids of level B, plus the
\* level-A context it was emitted in (ghost, for the invariants)
Rec(kind, t, i) == [kind |-> kind, ids |-> cx.act[t][1], a |-> LogicalCtx(cx, ctxof, t), i |-> i]

SInit ==
    /\ cx = CxInit
    /\ hist = <<>>
    /\ sp = [i \in Spans |-> NoSpan]
    /\ fsp = [f \in Frames |-> 0]
    /\ ctxof = [f \in Frames |-> 0]
    /\ lazy = [k \in Tasks |-> "plain"]
    /\ em = <<>>

\* #[emit::span] on a sync fn / block, new_span! + call, SpanGuard::new + enter: begin and enter
Begin(t, v, x) ==
    /\ FreeSpans # {} /\ FreeFrames(cx) # {}
    /\ Len(cx.stk[t]) < MaxDepth
    /\ LET i == NextSpan
           f == NextFrame(cx)
       IN /\ sp' = [sp EXCEPT ![i] = SpanRecX(t, i, v, x)]
          /\ cx' = CxEnter(OpenSpanFrameX(cx, t, i, v, x), t, f, "span", 0)
          /\ fsp' = [fsp EXCEPT ![f] = i]
          /\ ctxof' = [ctxof EXCEPT ![f] = CtxOfSpan(t, i, v)]
          /\ em' = <<>>
          /\ UNCHANGED lazy
          /\ SLog([op |-> "begin", t |-> t, i |-> i, f |-> f, v |-> v, ex |-> x,
                   xids |-> <<ExTr(i), ExId(i), ExPa(i)>>,
                   \* what the code as it is makes ambient instead (to classify finding F30)
                   lastwins |-> <<Child(t, i)[1], Child(t, i)[2],
                                  IF Child(t, i)[3] # 0 THEN Child(t, i)[3] ELSE ExPa(i)>>])

\* new_span! / SpanGuard::new: the guard and its frame exist but are not entered yet
New(t, v) ==
    /\ FreeSpans # {} /\ FreeFrames(cx) # {}
    /\ LET i == NextSpan
           f == NextFrame(cx)
       IN /\ sp' = [sp EXCEPT ![i] = SpanRec(t, i, v)]
          /\ cx' = OpenSpanFrame(cx, t, i, v)
          /\ fsp' = [fsp EXCEPT ![f] = i]
          /\ ctxof' = [ctxof EXCEPT ![f] = CtxOfSpan(t, i, v)]
          /\ em' = <<>>
          /\ UNCHANGED lazy
          /\ SLog([op |-> "new", t |-> t, i |-> i, f |-> f, v |-> v])

\* enter an idle frame on any thread; a span frame takes its guard along (started inside)
SEnter(t, f) ==
    /\ cx.fr[f].st = "idle"
    /\ Len(cx.stk[t]) < MaxDepth
    /\ cx' = CxEnter(cx, t, f, IF fsp[f] # 0 THEN "span" ELSE "guard", 0)
    /\ em' = <<>>
    /\ UNCHANGED <<sp, fsp, ctxof, lazy>>
    /\ SLog([op |-> "enter", t |-> t, f |-> f, i |-> fsp[f]])

\* the span body returns: the guard completes inside the frame, then the frame is left
End(t) ==
    /\ cx.stk[t] # <<>>
    /\ Top(cx, t).form = "span"
    /\ LET f == Top(cx, t).f
           i == fsp[f]
       IN /\ em' = IF sp[i].en THEN <<Rec("span", t, i)>> ELSE <<>>
          /\ sp' = [sp EXCEPT ![i].st = "done"]
          /\ cx' = CxPop(cx, t, "dead")
          /\ UNCHANGED <<fsp, ctxof, lazy>>
          /\ SLog([op |-> "end", t |-> t, f |-> f, i |-> i])

\* leave a plain frame (Frame::current / incoming ids)
SExit(t) ==
    /\ cx.stk[t] # <<>>
    /\ Top(cx, t).form = "guard"
    /\ cx' = CxPop(cx, t, "guard")
    /\ em' = <<>>
    /\ UNCHANGED <<sp, fsp, ctxof, lazy>>
    /\ SLog([op |-> "exit", t |-> t, f |-> Top(cx, t).f])

\* Frame::in_future (span frames: the guard moves into the async block)
SSpawn(t, f) ==
    /\ cx.fr[f].st = "idle"
    /\ FreeTasks(cx) # {}
    /\ cx' = [cx EXCEPT !.fr[f].st = "task", !.tk[NextTask(cx)] = [st |-> "idle", f |-> f]]
    /\ em' = <<>>
    /\ UNCHANGED <<sp, fsp, ctxof, lazy>>
    /\ SLog([op |-> "spawn", t |-> t, f |-> f, k |-> NextTask(cx), i |-> fsp[f]])

\* calling an #[emit::span] async fn: nothing happens until the first poll
Lazy(t) ==
    /\ WithLazy
    /\ FreeTasks(cx) # {}
    /\ FreeSpans # {} /\ FreeFrames(cx) # {}
    /\ cx' = [cx EXCEPT !.tk[NextTask(cx)] = [st |-> "idle", f |-> 0]]
    /\ lazy' = [lazy EXCEPT ![NextTask(cx)] = "lazy"]
    /\ em' = <<>>
    /\ UNCHANGED <<sp, fsp, ctxof>>
    /\ SLog([op |-> "lazy", t |-> t, k |-> NextTask(cx)])

\* first poll of an async-fn span: begin the span where the poll happens, then enter
PollLazy(t, k, v) ==
    /\ cx.tk[k].st = "idle" /\ lazy[k] = "lazy"
    /\ FreeSpans # {} /\ FreeFrames(cx) # {}
    /\ Len(cx.stk[t]) < MaxDepth
    /\ LET i == NextSpan
           f == NextFrame(cx)
           c1 == OpenSpanFrame(cx, t, i, v)
           c2 == [c1 EXCEPT !.fr[f].st = "task", !.tk[k] = [st |-> "run", f |-> f]]
       IN /\ sp' = [sp EXCEPT ![i] = SpanRec(t, i, v)]
          /\ cx' = CxEnter(c2, t, f, "poll", k)
          /\ fsp' = [fsp EXCEPT ![f] = i]
          /\ ctxof' = [ctxof EXCEPT ![f] = CtxOfSpan(t, i, v)]
          /\ lazy' = [lazy EXCEPT ![k] = "polled"]
          /\ em' = <<>>
          /\ SLog([op |-> "poll", t |-> t, k |-> k, i |-> i, f |-> f, v |-> v, first |-> TRUE])

SPoll(t, k) ==
    /\ cx.tk[k].st = "idle" /\ lazy[k] # "lazy"
    /\ Len(cx.stk[t]) < MaxDepth
    /\ cx' = [CxEnter(cx, t, cx.tk[k].f, "poll", k) EXCEPT !.tk[k].st = "run"]
    /\ em' = <<>>
    /\ lazy' = [lazy EXCEPT ![k] = "polled"]
    /\ UNCHANGED <<sp, fsp, ctxof>>
    /\ SLog([op |-> "poll", t |-> t, k |-> k, first |-> FALSE])

SYield(t) ==
    /\ cx.stk[t] # <<>>
    /\ Top(cx, t).form = "poll"
    /\ cx' = [CxPop(cx, t, "yield") EXCEPT !.tk[Top(cx, t).k].st = "idle"]
    /\ em' = <<>>
    /\ UNCHANGED <<sp, fsp, ctxof, lazy>>
    /\ SLog([op |-> "yield", t |-> t, k |-> Top(cx, t).k])

\* the async body finishes: a span task completes its guard inside the frame
SComplete(t) ==
    /\ cx.stk[t] # <<>>
    /\ Top(cx, t).form = "poll"
    /\ LET f == Top(cx, t).f
           i == fsp[f]
       IN /\ em' = IF i # 0 /\ sp[i].en THEN <<Rec("span", t, i)>> ELSE <<>>
          /\ sp' = IF i # 0 THEN [sp EXCEPT ![i].st = "done"] ELSE sp
          /\ cx' = [CxPop(cx, t, "done") EXCEPT !.tk[Top(cx, t).k] = NoTask("done")]
          /\ UNCHANGED <<fsp, ctxof, lazy>>
          /\ SLog([op |-> "complete", t |-> t, k |-> Top(cx, t).k, i |-> i])

\* A real panic! in the innermost body on thread t (a sync span body, an async span's poll, a
\* plain frame), caught below everything t has entered: every guard is dropped innermost
\* first, so every enabled span on the way completes inside its own frame (level and error of
\* that record are C05's business) and then its frame is left.
RECURSIVE UnwindRecs(_, _)
UnwindRecs(c, t) ==
    IF c.stk[t] = <<>> THEN <<>>
    ELSE LET e == Top(c, t)
             i == fsp[e.f]
             rec == IF i # 0 /\ sp[i].en
                    THEN <<[kind |-> "span", ids |-> c.act[t][1], a |-> ctxof[e.f], i |-> i]>> ELSE <<>>
         IN rec \o UnwindRecs(CxPop(c, t, IF e.form = "guard" THEN "guard" ELSE "dead"), t)

SpansOnStack(t) == {fsp[cx.stk[t][n].f] : n \in 1..Len(cx.stk[t])} \ {0}

SPanic(t) ==
    /\ Panics
    /\ cx.stk[t] # <<>>
    /\ em' = UnwindRecs(cx, t)
    /\ cx' = CxUnwind(cx, t)
    /\ sp' = [i \in Spans |-> IF i \in SpansOnStack(t) THEN [sp[i] EXCEPT !.st = "done"] ELSE sp[i]]
    /\ UNCHANGED <<fsp, ctxof, lazy>>
    /\ SLog([op |-> "panic", t |-> t])

\* Cancellation: the future of a started async span (polled at least once, now suspended) is
\* dropped by code running on thread t - in the frame of the span it was nested in, somewhere
\* else in the same trace tree, or where no span is ambient.  (A span cancelled from inside an
\* unrelated trace is two unrelated trees, not "a tree of nested spans": left out.)  Its guard
\* completes from Drop, OUTSIDE its frame.
\* Level A, the statement: the span's event carries the span's own id, parent = the span it was
\* directly nested in, the tree's trace id - the ids fixed when it began.
\* Level B, the code: completion re-reads the ambient context, so the event carries the ids of
\* whoever dropped it (CancelOwnIds = FALSE; finding F29).
Where(t, i) == LET L == LogicalCtx(cx, ctxof, t) IN
               IF L = 0 THEN "where no span is ambient"
               ELSE IF L = sp[i].encl THEN "in its parent's frame" ELSE "elsewhere in its trace tree"

Cancel(t, k) ==
    /\ WithCancel
    /\ cx.tk[k].st = "idle" /\ lazy[k] = "polled"
    /\ fsp[cx.tk[k].f] # 0
    /\ LET f == cx.tk[k].f
           i == fsp[f]
           L == LogicalCtx(cx, ctxof, t)
       IN /\ L = 0 \/ RootOf(L) = RootOf(i)
          /\ em' = IF sp[i].en
                   THEN <<[kind |-> "span", ids |-> IF CancelOwnIds THEN sp[i].ids ELSE cx.act[t][1],
                           a |-> i, i |-> i, cancel |-> TRUE]>>
                   ELSE <<>>
          /\ sp' = [sp EXCEPT ![i].st = "done"]
          /\ cx' = [cx EXCEPT !.fr[f] = NoFrame("dead"), !.tk[k] = NoTask("done")]
          /\ UNCHANGED <<fsp, ctxof, lazy>>
          /\ SLog([op |-> "cancel", t |-> t, k |-> k, i |-> i, f |-> f, where |-> Where(t, i),
                   emits |-> IF sp[i].en
                             THEN <<[kind |-> "span", ids |-> A_Ids(sp, i), cancel |-> TRUE]>> ELSE <<>>])

\* emit!(...) on thread t
Event(t) ==
    /\ em' = <<Rec("event", t, 0)>>
    /\ UNCHANGED <<cx, sp, fsp, ctxof, lazy>>
    /\ SLog([op |-> "event", t |-> t])

\* Frame::push(ctxt, incoming ids) - a trace id and a span id, a trace id alone, or a span id
\* alone; typed, hex or integer (the harness varies the encoding)
IncProps(kind) == CASE kind = "both" -> <<IN_TR, IN_SP, 0>>
                    [] kind = "trace" -> <<IN_TR, 0, 0>>
                    [] OTHER -> <<0, IN_SP, 0>>
IncCtx(kind) == CASE kind = "both" -> INC [] kind = "trace" -> INCT [] OTHER -> INCS

Incoming(t, kind) ==
    /\ FreeFrames(cx) # {}
    /\ LogicalCtx(cx, ctxof, t) = 0      \* incoming ids arrive at the edge of the service
    /\ cx' = CxOpen(cx, t, 1, "push", IncProps(kind))
    /\ ctxof' = [ctxof EXCEPT ![NextFrame(cx)] = IncCtx(kind)]
    /\ em' = <<>>
    /\ UNCHANGED <<sp, fsp, lazy>>
    /\ SLog([op |-> "incoming", t |-> t, f |-> NextFrame(cx), kind |-> kind,
             ids |-> <<IncProps(kind)[1], IncProps(kind)[2]>>])

\* Frame::current: capture the ambient ids to continue elsewhere
Current(t) ==
    /\ FreeFrames(cx) # {}
    /\ cx' = CxOpen(cx, t, 1, "current", NoProps)
    /\ ctxof' = [ctxof EXCEPT ![NextFrame(cx)] = LogicalCtx(cx, ctxof, t)]
    /\ em' = <<>>
    /\ UNCHANGED <<sp, fsp, lazy>>
    /\ SLog([op |-> "current", t |-> t, f |-> NextFrame(cx)])

SNext ==
    \/ \E t \in Threads, v \in BOOLEAN, x \in ExplicitKinds : Begin(t, v, x)
    \/ \E t \in Threads, v \in BOOLEAN : New(t, v)
    \/ \E t \in Threads, f \in Frames : SEnter(t, f)
    \/ \E t \in Threads : End(t)
    \/ \E t \in Threads : SExit(t)
    \/ \E t \in Threads, f \in Frames : SSpawn(t, f)
    \/ \E t \in Threads : Lazy(t)
    \/ \E t \in Threads, k \in Tasks, v \in BOOLEAN : PollLazy(t, k, v)
    \/ \E t \in Threads, k \in Tasks : SPoll(t, k)
    \/ \E t \in Threads : SYield(t)
    \/ \E t \in Threads : SComplete(t)
    \/ \E t \in Threads : Event(t)
    \/ \E t \in Threads : SPanic(t)
    \/ \E t \in Threads, k \in Tasks : Cancel(t, k)
    \/ \E t \in Threads, kind \in IncomingKinds : Incoming(t, kind)
    \/ \E t \in Threads : Current(t)

SSpec == SInit /\ [][SNext]_svars

-----------------------------------------------------------------------------
(* Properties *)
LiveFrames == {f \in Frames : cx.fr[f].st \in {"idle", "in", "task"}}
Started == {i \in Spans : sp[i].st # "none"}

\* level B agrees with level A on every frame, hence (InnermostWins) on every thread
\* (in the model of the code as it is, explicit-id spans deviate - finding F30, stated by
\* ExplicitIdsWin - and so does everything created under them)
Tainted == PushLastWins /\ \E i \in Spans : sp[i].st # "none" /\ sp[i].ex
ExplicitIdsWin == \A i \in Spans : (sp[i].st # "none" /\ sp[i].ex) => sp[i].ids = <<ExTr(i), ExId(i), ExPa(i)>>
FrameIds == ~Tainted => \A f \in LiveFrames : cx.fr[f].logical = A_Ids(sp, ctxof[f])
AmbientIds == ~Tainted => \A t \in Threads : cx.act[t][1] = A_Ids(sp, LogicalCtx(cx, ctxof, t))

\* every record emitted inside a tree carries the trace id of the tree's outermost span
\* (or the incoming trace id)
\* records of a cancelled span are judged only in the model of the repaired design; in the model
\* of the code as it is they are the open finding F29 (CancelCarriesOwnIds states it)
IsCancel(n) == "cancel" \in DOMAIN em[n]
Judged(n) == CancelOwnIds \/ ~IsCancel(n)
CancelCarriesOwnIds == \A n \in 1..Len(em) : IsCancel(n) => em[n].ids = sp[em[n].i].ids

OneTrace == ~Tainted =>
    \A n \in 1..Len(em) : (Judged(n) /\ em[n].a # 0) => em[n].ids[1] = TraceOfRoot(RootOf(em[n].a))

\* a span's parent is the id of the nearest enabled ancestor (or the incoming span id, or none),
\* on the span itself and on the record it emits
ParentIsEnclosing == ~Tainted =>
    /\ \A i \in Started : ~sp[i].ex =>
          sp[i].ids[3] = (IF sp[i].encl = 0 THEN 0
                          ELSE IF IsInc(sp[i].encl) THEN A_Id(sp, sp[i].encl) ELSE sp[sp[i].encl].ids[2])
    /\ \A i \in Started : ~sp[i].ex =>
          sp[i].ids[1] = (IF sp[i].encl = 0 \/ sp[i].encl = INCS THEN DrawTrace(i)
                          ELSE TraceOfRoot(RootOf(sp[i].encl)))
    /\ \A i \in Started : (sp[i].ex /\ ~PushLastWins) => sp[i].ids = <<ExTr(i), ExId(i), ExPa(i)>>
    /\ \A i \in Started : sp[i].encl \in Spans => sp[sp[i].encl].en
    /\ \A n \in 1..Len(em) : (Judged(n) /\ em[n].kind = "span") => em[n].ids = sp[em[n].i].ids

\* events carry the ids of the innermost enclosing enabled span (nothing outside any span)
EventCarriesInnermost == ~Tainted =>
    \A n \in 1..Len(em) : em[n].kind = "event" =>
        em[n].ids = (IF em[n].a = 0 THEN <<0, 0, 0>>
                     ELSE IF IsInc(em[n].a) THEN A_Ids(sp, em[n].a) ELSE sp[em[n].a].ids)

\* span ids are non-zero and distinct, trace ids of distinct trees are distinct
IdsDistinct == (HasRng /\ ~Tainted) =>
    /\ \A i \in Started : sp[i].ids[2] # 0 /\ sp[i].ids[1] # 0 /\ sp[i].ids[2] # IN_SP
    /\ \A i, j \in Started : i # j => sp[i].ids[2] # sp[j].ids[2]
    /\ \A i, j \in Started : (i # j /\ RootOf(i) = i /\ RootOf(j) = j) => sp[i].ids[1] # sp[j].ids[1]
    /\ \A i \in Started : RootOf(i) = i => sp[i].ids[1] # IN_TR

\* when a span ends (or its task suspends) the ambient ids are those from before it was entered
Revert == ExitRestores

SEmitReplay == Emit => PrintT(<<"REPLAY", ToJson([steps |-> hist'])>>)
=============================================================================
