\* Batcher ledger refinement, q3 constants (panicking callbacks, any remainder): Batcher.tla implements BatcherLedger.tla (PROPERTY LedgerSpec) and its proved Safe holds through the mapping. Exhaustive.
SPECIFICATION Spec
CONSTANTS
    SenderOps <- Q3_SenderOps
    FlusherOps <- Q3_FlusherOps
    Cap = 2
    MaxRetry = 10
    MaxFail = 1
    AnyRemainder = TRUE
    NonEmptyRem = FALSE
    OutcomeSet = {"ok", "fail", "retry", "panic", "panicFut"}
    AllowKill = FALSE
    MaxIdleDelay = 3
    Emit = FALSE
VIEW view
CONSTRAINT IdleBound
INVARIANTS TypeOK LedgerSafe
CHECK_DEADLOCK FALSE
PROPERTY LedgerSpec
