\* X05 quick: signals {logs, traces, metrics} x {HTTP+JSON, HTTP+protobuf (gzip), gRPC}; grouping: every batch sequence <b> with b of <= 3 events and
\* <b, c> (<= 2, 1 events) over modules {m1, m2, m1::x}, resource (service.name, deployment.environment), one header; resource x headers: 6 resources
\* (none, empty, 1, 2 attributes, duplicate key, two duplicate keys) x 3 header lists (none, authorization, mixed-case + duplicate name) x 18 transports
\* (with and without gzip) + 6 custom HTTP paths, one 4-event batch. Exhaustive.
SPECIFICATION Spec
CONSTANTS
    Cases <- MC_Cases
    Which = "quick"
    Emit = TRUE
INVARIANTS OneResourceEntry ResourceKeysExact ResourceValueGiven ScopePerModule EveryEventOnce
ACTION_CONSTRAINT EmitReplay
CHECK_DEADLOCK FALSE
