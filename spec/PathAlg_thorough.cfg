\* X06 thorough: segments {a, aa, b, _x, é}; constructor texts: joins of <= 3 parts out of the 5 segments and 9 malformed ones (empty, 1a,
\* a:b, "a ", *, :, a1, _, {a}) plus the empty text; storage forms: 13 constructors x <= 2 of {by_ref, clone, to_owned, From<&Path>} on
\* paths of <= 2 segments; pairs of paths of <= 3 segments (155 x 155); triples of paths of <= 2 segments over all 5 segments (30^3). Exhaustive.
SPECIFICATION Spec
CONSTANTS
    Segs <- MC_Segs
    BadSegs <- MC_BadSegs
    CharBytes <- MC_CharBytes
    CtorLen = 3
    FormLen = 2
    FormDepth = 2
    PairLen = 3
    TripleSegs = {1, 2, 3, 4, 5}
    TripleLen = 2
    Emit = TRUE
INVARIANTS JoinsAreValid FormRule ChildRule AppendRule OrderLaws AppendAssociative
ACTION_CONSTRAINT EmitReplay
CHECK_DEADLOCK FALSE
