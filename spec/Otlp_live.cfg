\* C12 liveness and budget exhaustion (level B): 3 events, limits 1..2, <= 3 non-acks against a retry
\* budget of 2 (so a batch can be given up), weak fairness: the flush always completes; AtLeastOnce
\* holds up to given-up batches.
SPECIFICATION FairSpec
CONSTANTS
    NEvents = 3
    Sizes = {1}
    Limits = {1, 2}
    MidFlushes = {{}, {1}}
    Faults = {"reject", "stall", "stalltrail", "dropa", "refuse"}
    MaxFaults = 3
    MaxRetry = 2
    DoublePop = FALSE
    Emit = FALSE
INVARIANTS TypeOK AtLeastOnce ExactlyOnceWhenClean ResendSame FreshConnAfterBreak NoSilentLoss
PROPERTY FlushCompletes
CHECK_DEADLOCK FALSE
