------------------------------ MODULE FileConf ------------------------------
(***************************************************************************)
(* X09 - the configuration surface of emit_file (emitter/file/src/lib.rs): *)
(* the file-set template, what an invalid template does, and the counters  *)
(* of FileSet::metric_source().  The worker's IO protocol, durability and  *)
(* retention order are C10 / C11 (spec/FileWorker.tla); here the worker is *)
(* followed at the granularity of its counters only.                       *)
(*                                                                         *)
(* Templates.  Level A (crate docs): from `dir/name.ext` files are written *)
(* to dir, their names start with `name` and use `.ext`: a template        *)
(* denotes (dir, prefix, ext); a name without extension gets `log`; a      *)
(* trailing slash does not matter; a template without a file name is       *)
(* invalid.  The files the set creates, `{prefix}.{date}.{counter}.{id}.   *)
(* {ext}`, must be recognised as its members (retention and reuse depend   *)
(* on it): MembersRecognised.  Level B (the code): Path::parent /          *)
(* file_stem / extension (std's split at the last dot, `.hidden` and `..`  *)
(* rules), file_name(), is_file_set_member().                              *)
(*                                                                         *)
(* Invalid template: spawn() gives a FileSet that counts                   *)
(* configuration_failed once, ignores emits and flushes successfully.      *)
(*                                                                         *)
(* Counters.  Level B: Worker::on_batch at the granularity of its counters *)
(* (file_create, file_create_failed, file_write_failed, file_delete,       *)
(* file_delete_failed, file_set_read_failed) and the channel's             *)
(* (queue_batch_processed / failed / retry), one injected fault at most.   *)
(* Level A: what a scenario implies - a file is created exactly when there *)
(* is no usable one (first batch, new period, size limit, after a failed   *)
(* write or create), a failure is counted exactly once where it was        *)
(* injected, the directory holds pre + created - deleted members, and      *)
(* never more than max_files after a batch that met no fault.              *)
(***************************************************************************)
EXTENDS Naturals, Sequences, FiniteSets, TLC, Json

CONSTANTS
    Dirs,        \* sequence of directory texts; index 0 stands for "no directory"
    Names,       \* sequence of file names (sequences of one-character strings)
    Invalid,     \* sequence of templates without a file name (texts)
    TsChars, CounterChars, IdChars,     \* the generated parts of a file name
    MaxFilesSet, PreSet, MaxSizeSet, MaxBatches, EvBytes, BadSet,
    Emit

VARIABLES mode,      \* "pick" | "tpl" | "inv" | "scn"
          case,      \* the template case / the scenario parameters
          members, active, ctr, nfresh, pending, faultUsed, lastp, hist
vars == <<mode, case, members, active, ctr, nfresh, pending, faultUsed, lastp, hist>>
view == <<mode, case, members, active, ctr, nfresh, pending, faultUsed, lastp>>

-----------------------------------------------------------------------------
(* templates *)
Dot == "."
LastDot(n) == IF \E i \in 1..Len(n) : n[i] = Dot THEN CHOOSE i \in 1..Len(n) : n[i] = Dot /\ \A j \in (i + 1)..Len(n) : n[j] # Dot ELSE 0
LogExt == <<"l", "o", "g">>

\* level A: the name up to its extension; without one, `log`
SplitA(n) ==
    LET i == LastDot(n) IN
    IF i <= 1 THEN [prefix |-> n, ext |-> LogExt]                     \* no dot, or only the leading one of a hidden file
    ELSE [prefix |-> SubSeq(n, 1, i - 1), ext |-> SubSeq(n, i + 1, Len(n))]
\* level B: file_stem() / extension(): std's rsplit_file_at_dot
SplitB(n) ==
    IF n = <<Dot, Dot>> THEN [prefix |-> n, ext |-> LogExt]
    ELSE LET i == LastDot(n) IN
         IF i = 0 THEN [prefix |-> n, ext |-> LogExt]                  \* (Some(file), None)
         ELSE LET before == SubSeq(n, 1, i - 1)  after == SubSeq(n, i + 1, Len(n)) IN
              IF before = <<>> THEN [prefix |-> n, ext |-> LogExt]     \* `.hidden`: (Some(file), None)
              ELSE [prefix |-> before, ext |-> after]

\* file_name(): {prefix}.{ts}.{counter}.{id}.{ext}
FileNameB(s) == s.prefix \o <<Dot>> \o TsChars \o <<Dot>> \o CounterChars \o <<Dot>> \o IdChars \o <<Dot>> \o s.ext
StartsWith(t, p) == Len(p) <= Len(t) /\ SubSeq(t, 1, Len(p)) = p
EndsWith(t, p) == Len(p) <= Len(t) /\ SubSeq(t, Len(t) - Len(p) + 1, Len(t)) = p
DropFront(t, k) == SubSeq(t, k + 1, Len(t))
DropBack(t, k) == SubSeq(t, 1, Len(t) - k)
RECURSIVE SplitDots(_, _)
SplitDots(t, cur) == IF t = <<>> THEN <<cur>> ELSE IF t[1] = Dot THEN <<cur>> \o SplitDots(Tail(t), <<>>) ELSE SplitDots(Tail(t), Append(cur, t[1]))
Digits == {"0", "1", "2", "3", "4", "5", "6", "7", "8", "9"}
HexDigits == Digits \cup {"a", "b", "c", "d", "e", "f", "A", "B", "C", "D", "E", "F"}
AllIn(t, S) == t # <<>> /\ \A i \in 1..Len(t) : t[i] \in S
\* is_file_set_member()
IsMemberB(fname, prefix, ext) ==
    /\ StartsWith(fname, prefix)
    /\ LET r1 == DropFront(fname, Len(prefix)) IN
       /\ StartsWith(r1, <<Dot>>)
       /\ LET r2 == DropFront(r1, 1) IN
          /\ EndsWith(r2, ext)
          /\ LET r3 == DropBack(r2, Len(ext)) IN
             /\ EndsWith(r3, <<Dot>>)
             /\ LET parts == SplitDots(DropBack(r3, 1), <<>>) IN
                /\ Len(parts) = 3
                /\ AllIn(parts[1], Digits \cup {"-"}) /\ AllIn(parts[2], Digits) /\ AllIn(parts[3], HexDigits)

TplCases == {[d |-> d, n |-> n, slash |-> s] : d \in 0..Len(Dirs), n \in 1..Len(Names), s \in BOOLEAN}

-----------------------------------------------------------------------------
(* counters *)
Zero == [file_create |-> 0, file_create_failed |-> 0, file_write_failed |-> 0, file_delete |-> 0, file_delete_failed |-> 0,
         file_set_read_failed |-> 0, event_format_failed |-> 0, batch_ok |-> 0, batch_failed |-> 0, batch_retry |-> 0]
Faults == {"mkdir", "list", "create", "write", "delete", "sync"}
NoFile == [some |-> FALSE, p |-> 0, size |-> 0]

\* members: a set of [p |-> period, k |-> serial]; older = smaller <<p, k>>; retention deletes the oldest
Older(a, b) == a.p < b.p \/ (a.p = b.p /\ a.k < b.k)
Oldest(S) == CHOOSE a \in S : \A b \in S \ {a} : Older(a, b)
NewSerial(S) == IF S = {} THEN 1 ELSE 1 + (CHOOSE k \in {a.k : a \in S} : \A j \in {a.k : a \in S} : j <= k)

\* apply_retention(max): returns [members, deleted, delfailed]; a failing delete (at most one) leaves the file and goes on
RECURSIVE Retain(_, _, _, _, _)
Retain(seen, mem, max, failOne, acc) ==
    IF Cardinality(seen) <= max THEN [members |-> mem, deleted |-> acc.d, failed |-> acc.f]
    ELSE LET o == Oldest(seen) IN
         IF failOne THEN Retain(seen \ {o}, mem, max, FALSE, [d |-> acc.d, f |-> acc.f + 1])
         ELSE Retain(seen \ {o}, mem \ {o}, max, FALSE, [d |-> acc.d + 1, f |-> acc.f])

\* one invocation of Worker::on_batch: sz bytes at period p under fault f ("none" or one of Faults)
\* result: [members, active, ctr, outcome: "ok" | "retry" | "noretry", faulted: did the fault fire]
OnBatch(mem, af, c, sz, p, f, maxFiles, maxSize) ==
    LET needDir == ~af.some
        mkdirFails == needDir /\ f = "mkdir"
    IN IF mkdirFails THEN [members |-> mem, active |-> NoFile, ctr |-> c, outcome |-> "retry", faulted |-> TRUE]
    ELSE
    LET usable == af.some /\ af.size + sz <= maxSize /\ af.p = p
    IN IF usable
       THEN \* write into the active file
            IF f = "write" THEN [members |-> mem, active |-> NoFile, ctr |-> [c EXCEPT !.file_write_failed = @ + 1], outcome |-> "retry", faulted |-> TRUE]
            ELSE IF f = "sync" THEN [members |-> mem, active |-> NoFile, ctr |-> c, outcome |-> "noretry", faulted |-> TRUE]
            ELSE [members |-> mem, active |-> [af EXCEPT !.size = @ + sz], ctr |-> c, outcome |-> "ok", faulted |-> FALSE]
       ELSE \* a new file: list (once), retention, create
            LET listFails == f = "list"
                seen == IF listFails THEN {} ELSE mem
                c1 == IF listFails THEN [c EXCEPT !.file_set_read_failed = @ + 1] ELSE c
                ret == Retain(seen, mem, IF maxFiles = 0 THEN 0 ELSE maxFiles - 1, f = "delete", [d |-> 0, f |-> 0])
                c2 == [c1 EXCEPT !.file_delete = @ + ret.deleted, !.file_delete_failed = @ + ret.failed]
                fired0 == listFails \/ ret.failed > 0
            IN IF f = "create"
               THEN [members |-> ret.members, active |-> NoFile, ctr |-> [c2 EXCEPT !.file_create_failed = @ + 1], outcome |-> "retry", faulted |-> TRUE]
               ELSE LET nf == [p |-> p, k |-> NewSerial(ret.members \cup mem)]
                        mem2 == ret.members \cup {nf}
                        c3 == [c2 EXCEPT !.file_create = @ + 1]
                    IN IF f = "write" THEN [members |-> mem2, active |-> NoFile, ctr |-> [c3 EXCEPT !.file_write_failed = @ + 1], outcome |-> "retry", faulted |-> TRUE]
                       ELSE IF f = "sync" THEN [members |-> mem2, active |-> NoFile, ctr |-> c3, outcome |-> "noretry", faulted |-> TRUE]
                       ELSE [members |-> mem2, active |-> [some |-> TRUE, p |-> p, size |-> sz], ctr |-> c3, outcome |-> "ok", faulted |-> fired0]

ScnCases == {[maxFiles |-> m, pre |-> e, maxSize |-> z] : m \in MaxFilesSet, e \in PreSet, z \in MaxSizeSet}
PreMembers(e) == {[p |-> 0, k |-> i] : i \in 1..e}

-----------------------------------------------------------------------------
Init ==
    /\ mode = "pick" /\ case = <<>>
    /\ members = {} /\ active = NoFile /\ ctr = Zero /\ nfresh = 0 /\ pending = <<>> /\ faultUsed = FALSE /\ lastp = 1 /\ hist = <<>>

PickTpl(c) == mode = "pick" /\ mode' = "tpl" /\ case' = c /\ UNCHANGED <<members, active, ctr, nfresh, pending, faultUsed, lastp, hist>>
PickInv(i) == mode = "pick" /\ mode' = "inv" /\ case' = [i |-> i] /\ UNCHANGED <<members, active, ctr, nfresh, pending, faultUsed, lastp, hist>>
PickScn(c) ==
    /\ mode = "pick" /\ mode' = "scn" /\ case' = c
    /\ members' = PreMembers(c.pre)
    /\ UNCHANGED <<active, ctr, nfresh, pending, faultUsed, lastp, hist>>

\* one invocation: a fresh batch of n events at period p (nothing waits to be retried), or the retry of the pending one
\* `bad` events of a fresh batch fail to format: they are counted and never reach the worker
Invoke(n, p, f, fresh, bad) ==
    /\ mode = "scn"
    /\ f = "none" \/ ~faultUsed
    /\ LET r == OnBatch(members, active, [ctr EXCEPT !.event_format_failed = @ + bad], n * EvBytes, p, f, case.maxFiles, case.maxSize)
           c2 == IF r.outcome = "ok" THEN [r.ctr EXCEPT !.batch_ok = @ + 1]
                 ELSE IF r.outcome = "retry" THEN [r.ctr EXCEPT !.batch_failed = @ + 1, !.batch_retry = @ + 1]
                 ELSE [r.ctr EXCEPT !.batch_failed = @ + 1]
       IN /\ (f # "none") => r.faulted              \* only faults that fire are scripted
          /\ members' = r.members /\ active' = r.active /\ ctr' = c2
          /\ pending' = IF r.outcome = "retry" THEN <<[n |-> n, p |-> p]>> ELSE <<>>
          /\ faultUsed' = (faultUsed \/ f # "none")
          /\ lastp' = p
          /\ hist' = Append(hist, [n |-> n, bad |-> bad, p |-> p, fault |-> f, fresh |-> fresh, outcome |-> r.outcome,
                                   ctr |-> c2, members |-> Cardinality(r.members)])
    /\ UNCHANGED <<mode, case>>

Fresh(n, dp, f, bad) ==
    /\ pending = <<>> /\ nfresh < MaxBatches
    /\ nfresh = 0 => (n = 1 /\ bad = 0)           \* the first batch is one event (see the harness: it cannot be made to pile up)
    /\ nfresh' = nfresh + 1
    /\ Invoke(n, lastp + dp, f, TRUE, bad)
Retry(f) ==
    /\ pending # <<>>
    /\ UNCHANGED nfresh
    /\ Invoke(pending[1].n, pending[1].p, f, FALSE, 0)

Next ==
    \/ \E c \in TplCases : PickTpl(c)
    \/ \E i \in 1..Len(Invalid) : PickInv(i)
    \/ \E c \in ScnCases : PickScn(c)
    \/ \E n \in {1, 2}, dp \in {0, 1}, f \in Faults \cup {"none"}, bad \in BadSet : Fresh(n, dp, f, bad)
    \/ \E f \in {"none"} : Retry(f)
Spec == Init /\ [][Next]_vars

-----------------------------------------------------------------------------
(* Properties *)
NameOf(c) == Names[c.n]
\* the code's split is the documented one, and what the set creates it recognises
TemplateRule == mode = "tpl" => SplitB(NameOf(case)) = SplitA(NameOf(case))
MembersRecognised == mode = "tpl" =>
    LET s == SplitB(NameOf(case)) IN IsMemberB(FileNameB(s), s.prefix, s.ext)
\* ... and nobody else's: a sibling set whose prefix extends this one is not a member
ForeignNotMember == mode = "tpl" =>
    LET s == SplitB(NameOf(case)) IN ~IsMemberB(FileNameB([s EXCEPT !.prefix = @ \o <<"2">>]), s.prefix, s.ext)

Pre == Cardinality(PreMembers(case.pre))
\* the directory holds what was there plus what was created minus what was deleted
Conservation == mode = "scn" => Cardinality(members) = Pre + ctr.file_create - ctr.file_delete
\* a failure is counted exactly once, where it was injected
FailuresCounted == mode = "scn" =>
    LET fired == {hist[i].fault : i \in 1..Len(hist)} \ {"none"} IN
    /\ ctr.file_create_failed = (IF "create" \in fired THEN 1 ELSE 0)
    /\ ctr.file_write_failed = (IF "write" \in fired THEN 1 ELSE 0)
    /\ ctr.file_delete_failed = (IF "delete" \in fired THEN 1 ELSE 0)
    /\ ctr.file_set_read_failed = (IF "list" \in fired THEN 1 ELSE 0)
\* retention: after a batch that went through, with no fault so far, at most max_files members (at least the one written)
RetentionBound == mode = "scn" /\ hist # <<>> /\ ~faultUsed /\ hist[Len(hist)].outcome = "ok" =>
    Cardinality(members) <= (IF case.maxFiles = 0 THEN 1 ELSE case.maxFiles) \/ ctr.file_create = 0
\* an event that cannot be formatted is counted and costs nothing else
FormatFailures == mode = "scn" => ctr.event_format_failed = (LET F[i \in 0..Len(hist)] == IF i = 0 THEN 0 ELSE F[i - 1] + hist[i].bad IN F[Len(hist)])
\* every invocation is accounted: ok + failed = invocations; a retry is scheduled for every retryable failure
BatchesAccounted == mode = "scn" =>
    /\ ctr.batch_ok + ctr.batch_failed = Len(hist)
    /\ ctr.batch_retry = Cardinality({i \in 1..Len(hist) : hist[i].outcome = "retry"})
\* a file is created exactly when there was no usable one
CreatedWhenNeeded == mode = "scn" => ctr.file_create <= Len(hist) /\ (hist # <<>> /\ hist[1].outcome = "ok" => ctr.file_create >= 1)

TplJson(c) ==
    LET s == SplitA(NameOf(c)) IN
    [kind |-> "tpl", dir |-> IF c.d = 0 THEN "" ELSE Dirs[c.d], has_dir |-> c.d # 0, name |-> NameOf(c), slash |-> c.slash,
     prefix |-> s.prefix, ext |-> s.ext, file |-> FileNameB(s)]
EmitReplay ==
    Emit => CASE mode' = "tpl" /\ mode = "pick" -> PrintT(<<"REPLAY", ToJson(TplJson(case'))>>)
              [] mode' = "inv" /\ mode = "pick" -> PrintT(<<"REPLAY", ToJson([kind |-> "inv", template |-> Invalid[case'.i]])>>)
              [] mode' = "scn" /\ mode = "scn" /\ pending' = <<>> -> PrintT(<<"REPLAY", ToJson([kind |-> "scn", cfg |-> case', steps |-> hist'])>>)
              [] OTHER -> TRUE
=============================================================================
