\* X07 thorough: 10 instants (+ mid+1s-1ns, 10^9 s, MAX-1s) x 12 durations (+ 1s+1ns, 3e11 s, u64::MAX s, 2^63 s) for
\* checked_add/sub and the operators; 10 x 10 for duration_since / order; 10 x 10 x 12 for monotonicity; from_unix of all 22; to_parts / from_parts
\* of ~3750 dates (every year 1970-2110 and 15 later ones x 12 months x days 1, 28; leap days; year ends) (leap days, 2038/2039 path switch, 2100, 2400, 9999-12-31) x 4 times of day; 30 parts with fields beyond their maximum / out of range.
SPECIFICATION Spec
CONSTANTS
    Instants <- MC_Instants
    Durations <- MC_Durations
    Dates <- MC_Dates
    Clocks <- MC_Clocks
    Overflows <- MC_Overflows
    Which = "thorough"
    Emit = TRUE
INVARIANTS FromUnixRule CheckedOpsRule AddSubInverse SinceRule Monotone PartsRule OverflowRule
ACTION_CONSTRAINT EmitReplay
CHECK_DEADLOCK FALSE
