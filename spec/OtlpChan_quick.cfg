\* C09 carry-through to OTLP (channel contract): capacity 4, event sizes 1..2 units, request limits
\* 1 (one event per request), 3 and 8 (everything in one request), every sequence of <= 8 sends / takes.
SPECIFICATION Spec
CONSTANTS
    Capacity = 4
    Sizes = {1, 2}
    Limits = {1, 3, 8}
    MaxOps = 8
    LenCountsRequests = FALSE
    Emit = TRUE
INVARIANTS TypeOK RequestsHoldPending LenIsEvents PendingBounded Conservation
ACTION_CONSTRAINT EmitReplay
CHECK_DEADLOCK FALSE
