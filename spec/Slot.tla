-------------------------------- MODULE Slot --------------------------------
(***************************************************************************)
(* C20 - a runtime slot is initialised at most once and is inert before.   *)
(*                                                                         *)
(* slot is Empty (0) or the tag of the configuration that was installed    *)
(* (a configuration = the five components emitter, filter, ctxt, clock,    *)
(* rng of one initialiser, all carrying the initialiser's tag).            *)
(*                                                                         *)
(* An initialiser builds its configuration in one of the public forms      *)
(* (Forms: Setup::emit_to / and_emit_to / both / map_emitter for the Setup  *)
(* entry points; Runtime::build / Setup::init_runtime / Runtime::default()  *)
(* + with_* for the slots' own init).  The forms differ only in how many    *)
(* destinations (leaves) the installed emitter has and in whether a flush   *)
(* budget is split on the way to them.                                      *)
(*                                                                         *)
(* Initialiser i:  InitCall(i, kind, form) -> TrySet(i) -> InitRet(i, res). *)
(*   TrySet is the single atomic step of the design (OnceLock::set): the   *)
(*   first one installs its configuration, every later one loses and its   *)
(*   components are dropped unused.  The kinds that hand back the handle   *)
(*   directly (init_slot, init, init_internal) panic on a loss, the try_   *)
(*   forms and the slots' own init return None (see RetOf).                *)
(* Observer o:  ObsCall(o, op) -> Read(o) -> ObsRet(o, ...).               *)
(*   Read is one atomic read of the slot (AmbientSlot::get / is_enabled);  *)
(*   everything the operation then does uses the runtime it read.          *)
(*                                                                         *)
(* InitCall / InitRet / ObsCall / ObsRet are the events visible at the     *)
(* public API (call start, call end); TrySet and Read are internal.  The   *)
(* properties are stated over what the observable events carry (obsLog,    *)
(* iret), not over the internal variables.                                 *)
(*                                                                         *)
(* Design = "oncelock" is the code.  The other designs are the catalogued  *)
(* ways of getting it wrong; TLC must reject them (sensitivity).           *)
(***************************************************************************)
EXTENDS Naturals, FiniteSets, Sequences, TLC

CONSTANTS
    Inits,        \* initialiser tags (positive integers)
    Observers,    \* observer ids
    InitKinds,    \* subset of PanickingKinds \cup TryKinds (below)
    ObsOps,       \* subset of {"is_enabled", "emit", "span", "flush", "probe"}
    MaxObs,       \* operations per observer
    Forms,        \* subset of SetupForms \cup RuntimeForms (below)
    HandleOps,    \* subset of {"h_probe", "h_flush", "h_guard_drop", "h_guard_unwind"} ({} = no
                  \* handle phase)
    MaxHandle,    \* operations a successful initialiser makes through its handle
    Design        \* "oncelock" | "percomponent" | "twostep" | "lastwins"

Empty == 0
Unobs == 99       \* component not exercised by the operation
NComp == 5        \* 1 emitter, 2 filter, 3 ctxt, 4 clock, 5 rng

\* the components an operation exercises
Comps(op) ==
    CASE op = "is_enabled" -> {}
      [] op = "emit" -> {1, 2, 3, 4}
      [] op = "flush" -> {1}
      [] op = "span" -> {1, 2, 3, 4, 5}
      [] op = "probe" -> {1, 2, 3, 4, 5}

VARIABLES
    slot,         \* Empty or the installed tag
    flag,         \* design "twostep" only: the enabled flag published before the value
    ipc, ikind, iform, ires, iret,
    opc, oop, oread, ocount, omust,
    seenEnabled,  \* some returned observation showed the slot enabled
    obsLog,       \* the returned observations
    hnd,          \* per initialiser: what it does with the handle (Init) it was given
    hLog          \* the returned handle operations

vars == <<slot, flag, ipc, ikind, iform, ires, iret, opc, oop, oread, ocount, omust, seenEnabled, obsLog>>
hvars == <<hnd, hLog>>
allvars == <<vars, hvars>>
NoHandle == [pc |-> "idle", op |-> "none", n |-> 0, gone |-> FALSE]

\* the forms of building a configuration
\*   through Setup (handed to try_init_slot / init_slot / try_init / init / ..._internal):
\*     emit_to      setup().emit_to(E)                    and_emit_to  setup().and_emit_to(E)
\*     emit_to_and  setup().emit_to(E).and_emit_to(E')    map_emitter  setup().map_emitter(|_| E)
\*   a Runtime handed to the slot's own init:
\*     build        Runtime::build(E, ..)                 init_runtime setup().emit_to(E)...init_runtime()
\*     default_with Runtime::default().with_emitter(E)... init_runtime_and  ...emit_to(E).and_emit_to(E').init_runtime()
SetupForms == {"emit_to", "and_emit_to", "emit_to_and", "map_emitter"}
RuntimeForms == {"build", "init_runtime", "default_with", "init_runtime_and"}
\* destinations of the installed emitter, each tagged with the initialiser's tag
Leaves(f) == IF f \in {"emit_to_and", "init_runtime_and"} THEN 2 ELSE 1
\* the emitter is an And: a flush budget is split between its halves (otherwise it arrives whole)
Split(f) == f \in {"and_emit_to", "emit_to_and", "init_runtime_and"}
\* the Setup entry points (they hand the successful caller an Init handle) take a Setup form,
\* the slots' own init a Runtime form
HandleKinds == {"try_init_slot", "init_slot", "try_init", "init", "try_init_internal",
                "init_internal"}
FormsFor(k) == IF k \in HandleKinds THEN SetupForms ELSE RuntimeForms

Init ==
    /\ slot = Empty /\ flag = FALSE
    /\ ipc = [i \in Inits |-> "idle"]
    /\ ikind = [i \in Inits |-> "none"]
    /\ iform = [i \in Inits |-> "none"]
    /\ ires = [i \in Inits |-> "none"]
    /\ iret = [i \in Inits |-> "none"]
    /\ opc = [o \in Observers |-> "idle"]
    /\ oop = [o \in Observers |-> "none"]
    /\ oread = [o \in Observers |-> <<>>]
    /\ ocount = [o \in Observers |-> 0]
    /\ omust = [o \in Observers |-> FALSE]
    /\ seenEnabled = FALSE
    /\ obsLog = {}
    /\ hnd = [i \in Inits |-> NoHandle]
    /\ hLog = {}

-----------------------------------------------------------------------------
InitCall(i, k, f) ==
    /\ ipc[i] = "idle"
    /\ f \in FormsFor(k)
    /\ ipc' = [ipc EXCEPT ![i] = "called"]
    /\ ikind' = [ikind EXCEPT ![i] = k]
    /\ iform' = [iform EXCEPT ![i] = f]
    /\ UNCHANGED <<slot, flag, ires, iret, opc, oop, oread, ocount, omust, seenEnabled, obsLog>>

\* the single atomic step
TrySet(i) ==
    /\ ipc[i] = "called"
    /\ CASE Design = "lastwins" ->
              /\ slot' = i /\ flag' = TRUE
              /\ ires' = [ires EXCEPT ![i] = "won"]
              /\ ipc' = [ipc EXCEPT ![i] = "attempted"]
         [] Design = "twostep" /\ ~flag ->      \* first step: publish the flag
              /\ flag' = TRUE
              /\ ires' = [ires EXCEPT ![i] = "won"]
              /\ ipc' = [ipc EXCEPT ![i] = "publishing"]
              /\ UNCHANGED slot
         [] OTHER ->
              /\ IF slot = Empty /\ ~flag
                 THEN slot' = i /\ flag' = TRUE /\ ires' = [ires EXCEPT ![i] = "won"]
                 ELSE UNCHANGED <<slot, flag>> /\ ires' = [ires EXCEPT ![i] = "lost"]
              /\ ipc' = [ipc EXCEPT ![i] = "attempted"]
    /\ UNCHANGED <<ikind, iform, iret, opc, oop, oread, ocount, omust, seenEnabled, obsLog>>

\* design "twostep": second step, the value
Publish(i) ==
    /\ ipc[i] = "publishing"
    /\ slot' = i
    /\ ipc' = [ipc EXCEPT ![i] = "attempted"]
    /\ UNCHANGED <<flag, ikind, iform, ires, iret, opc, oop, oread, ocount, omust, seenEnabled, obsLog>>

\* Every public way of initialising a slot.  The forms that return the handle directly
\* panic when they lose; the try_ forms and the slots' own init return None.
\*   a slot of one's own: Setup::try_init_slot / init_slot, AmbientSlot::init ("slot_init")
\*   the shared slot:     Setup::try_init / init
\*   the internal slot:   Setup::try_init_internal / init_internal,
\*                        AmbientInternalSlot::init ("internal_slot_init")
PanickingKinds == {"init_slot", "init", "init_internal"}
TryKinds == {"try_init_slot", "slot_init", "try_init", "try_init_internal", "internal_slot_init"}
KindsFor(target) ==
    CASE target = "fresh" -> {"try_init_slot", "init_slot", "slot_init"}
      [] target = "shared" -> {"try_init", "init"}
      [] target = "internal" -> {"try_init_internal", "init_internal", "internal_slot_init"}
      [] OTHER -> {}

RetOf(k, res) ==
    IF k \in PanickingKinds THEN (IF res = "won" THEN "ok" ELSE "panic")
    ELSE (IF res = "won" THEN "some" ELSE "nil")

InitRet(i, r) ==
    /\ ipc[i] = "attempted"
    /\ r = RetOf(ikind[i], ires[i])
    /\ ipc' = [ipc EXCEPT ![i] = "returned"]
    /\ iret' = [iret EXCEPT ![i] = r]
    /\ UNCHANGED <<slot, flag, ikind, iform, ires, opc, oop, oread, ocount, omust, seenEnabled, obsLog>>

ObsCall(o, op) ==
    /\ opc[o] \in {"idle", "returned"}
    /\ ocount[o] < MaxObs
    /\ opc' = [opc EXCEPT ![o] = "called"]
    /\ oop' = [oop EXCEPT ![o] = op]
    /\ oread' = [oread EXCEPT ![o] = <<>>]
    /\ omust' = [omust EXCEPT ![o] = seenEnabled]
    /\ UNCHANGED <<slot, flag, ipc, ikind, iform, ires, iret, ocount, seenEnabled, obsLog>>

\* what one read of the slot yields (design "twostep": is_enabled looks at the flag, get()
\* at the value)
SeenBy(op) ==
    IF Design = "twostep" /\ flag /\ slot = Empty
    THEN (IF op = "is_enabled" THEN CHOOSE i \in Inits : ipc[i] = "publishing" ELSE Empty)
    ELSE slot

\* one atomic read; the code reads once per operation, "percomponent" once per component
Read(o) ==
    /\ opc[o] = "called"
    /\ oread' = [oread EXCEPT ![o] = Append(@, SeenBy(oop[o]))]
    /\ opc' = [opc EXCEPT ![o] =
                 IF Design = "percomponent" /\ Len(oread[o]) + 1 < NComp THEN "called" ELSE "read"]
    /\ UNCHANGED <<slot, flag, ipc, ikind, iform, ires, iret, oop, ocount, omust, seenEnabled, obsLog>>

\* the tag component k of the observation shows
TagOf(o, k) == IF Len(oread[o]) = 1 THEN oread[o][1] ELSE oread[o][k]
EnabledOf(o) == TagOf(o, 1) # Empty
\* the destinations of the emitter of configuration t (the empty runtime has none)
LeavesAt(t) == IF t = Empty THEN 0 ELSE Leaves(iform[t])

\* the observation an operation returns: per component the tag that answered (Empty = the
\* constant empty runtime: nothing emitted / no property / no reading / no value)
ResultOf(o) ==
    [op |-> oop[o],
     tags |-> [k \in 1..NComp |-> IF k \in Comps(oop[o]) THEN TagOf(o, k) ELSE Unobs],
     en |-> EnabledOf(o),
     \* destinations that answered (an event / a flush request reaches each exactly once)
     ne |-> IF 1 \in Comps(oop[o]) THEN LeavesAt(TagOf(o, 1)) ELSE 0,
     \* the configuration's emitter splits a flush budget on the way
     split |-> 1 \in Comps(oop[o]) /\ TagOf(o, 1) # Empty /\ Split(iform[TagOf(o, 1)]),
     must |-> omust[o]]

ObsRet(o, res) ==
    /\ opc[o] = "read"
    /\ res = ResultOf(o)
    /\ opc' = [opc EXCEPT ![o] = "returned"]
    /\ ocount' = [ocount EXCEPT ![o] = @ + 1]
    /\ seenEnabled' = (seenEnabled \/ res.en \/ \E k \in Comps(res.op) : res.tags[k] # Empty)
    /\ obsLog' = obsLog \cup {res}
    /\ UNCHANGED <<slot, flag, ipc, ikind, iform, ires, iret, oop, oread, omust>>

ObsReturn(o) ==
    /\ opc[o] = "read"
    /\ ObsRet(o, ResultOf(o))

-----------------------------------------------------------------------------
(* The post-initialisation phase of the winner: the Setup forms hand the successful caller an
   `Init` with references to its own emitter / ctxt and to the runtime (Init::get).  What it
   does through the handle needs no read of the slot: it reaches the caller's own
   configuration - which is the installed one.
     h_probe      the five components through Init::get()
     h_flush      Init::blocking_flush(timeout): the emitter is asked once, its answer returned
     h_guard_drop Init::flush_on_drop(timeout), InitGuard::inner(), then dropping the guard:
                  the emitter is asked exactly once, when the guard is dropped
     h_guard_unwind  the same, the guard being dropped by a panic that unwinds through its scope
   "The emitter is asked once" = each of its destinations is.
   A caller of a try_ form that lost guards what it was handed the same way
   (`try_init..().map(|init| init.flush_on_drop(t))`): there is no guard, nothing is flushed. *)
HComps(op) == IF op = "h_probe" THEN {1, 2, 3, 4, 5} ELSE {1}
GuardOps == {"h_guard_drop", "h_guard_unwind"}
HFlushOps == {"h_flush"} \cup GuardOps

HandleCall(i, op) ==
    /\ ipc[i] = "returned" /\ ikind[i] \in HandleKinds
    /\ iret[i] \in {"some", "ok"} \/ (iret[i] = "nil" /\ op \in GuardOps)
    /\ hnd[i].pc = "idle" /\ ~hnd[i].gone /\ hnd[i].n < MaxHandle
    /\ hnd' = [hnd EXCEPT ![i] = [@ EXCEPT !.pc = "called", !.op = op]]
    /\ UNCHANGED <<vars, hLog>>

\* level B: the handle's references are to the components the caller passed in (tag i)
\* (a caller that lost holds nothing: no component answers, nothing is flushed)
HResultOf(i) ==
    LET won == iret[i] \in {"some", "ok"}
        who == IF won THEN i ELSE Empty
    IN [i |-> i, op |-> hnd[i].op, won |-> won,
        tags |-> [k \in 1..NComp |-> IF k \in HComps(hnd[i].op) THEN who ELSE Unobs],
        ne |-> IF won THEN Leaves(iform[i]) ELSE 0,
        flushes |-> IF won /\ hnd[i].op \in HFlushOps THEN Leaves(iform[i]) ELSE 0,
        split |-> won /\ Split(iform[i])]

HandleRet(i, res) ==
    /\ hnd[i].pc = "called"
    /\ res = HResultOf(i)
    /\ hnd' = [hnd EXCEPT ![i] = [@ EXCEPT !.pc = "idle", !.n = @ + 1,
                                          !.gone = (res.op \in GuardOps)]]
    /\ hLog' = hLog \cup {res}
    /\ UNCHANGED vars

HandleReturn(i) ==
    /\ hnd[i].pc = "called"
    /\ HandleRet(i, HResultOf(i))

\* the actions above leave the handle phase alone
DoInitCall(i, k, f) == InitCall(i, k, f) /\ UNCHANGED hvars
DoTrySet(i) == TrySet(i) /\ UNCHANGED hvars
DoPublish(i) == Publish(i) /\ UNCHANGED hvars
DoInitRet(i, r) == InitRet(i, r) /\ UNCHANGED hvars
DoObsCall(o, op) == ObsCall(o, op) /\ UNCHANGED hvars
DoRead(o) == Read(o) /\ UNCHANGED hvars
DoObsReturn(o) == ObsReturn(o) /\ UNCHANGED hvars

Next ==
    \/ \E i \in Inits, k \in InitKinds, f \in Forms : DoInitCall(i, k, f)
    \/ \E i \in Inits : DoTrySet(i)
    \/ \E i \in Inits : DoPublish(i)
    \/ \E i \in Inits, r \in {"some", "nil", "ok", "panic"} : DoInitRet(i, r)
    \/ \E o \in Observers, op \in ObsOps : DoObsCall(o, op)
    \/ \E o \in Observers : DoRead(o)
    \/ \E o \in Observers : DoObsReturn(o)
    \/ \E i \in Inits, op \in HandleOps : HandleCall(i, op)
    \/ \E i \in Inits : HandleReturn(i)

Spec == Init /\ [][Next]_allvars

-----------------------------------------------------------------------------
(* Properties, over the observable results *)

Success(r) == r \in {"some", "ok"}
Failure(r) == r \in {"nil", "panic"}
Winners == {i \in Inits : Success(iret[i])}
SomeoneCalled == \E i \in Inits : ipc[i] # "idle"
\* every initialiser that was called has returned (and there is one)
AllReturned == SomeoneCalled /\ \A i \in Inits : ipc[i] \in {"idle", "returned"}

TypeOK ==
    /\ slot \in {Empty} \cup Inits
    /\ \A i \in Inits : ipc[i] \in {"idle", "called", "publishing", "attempted", "returned"}
    /\ \A o \in Observers : opc[o] \in {"idle", "called", "read", "returned"}

\* however many race, at most one attempt reports success ...
AtMostOneWinner == Cardinality(Winners) <= 1
\* ... and once all have returned exactly one did; init_slot panics exactly when it lost
ExactlyOneWinner ==
    AllReturned =>
        /\ Cardinality(Winners) = 1
        /\ \A i \in Inits : ipc[i] = "returned" =>
              iret[i] \in (IF ikind[i] \in PanickingKinds THEN {"ok", "panic"} ELSE {"some", "nil"})

\* no observation is ever answered by a configuration whose initialiser reported failure
LosersNeverReceive ==
    \A r \in obsLog : \A k \in Comps(r.op) :
        r.tags[k] # Empty => ~Failure(iret[r.tags[k]])

\* what a successful caller reaches through its handle is the installed configuration, all
\* components of it; a flush through the handle (or on dropping its guard) asks once
HandleIsInstalled ==
    \A h \in hLog : h.won =>
        /\ \A k \in HComps(h.op) : h.tags[k] = slot /\ slot # Empty
        /\ h.ne = LeavesAt(slot)
        /\ h.flushes = IF h.op \in HFlushOps THEN LeavesAt(slot) ELSE 0

\* whoever lost holds no guard: dropping what it was handed reaches no component and flushes
\* nothing
GuardInertWhenLost ==
    \A h \in hLog : ~h.won =>
        /\ Failure(iret[h.i]) /\ slot # h.i
        /\ h.flushes = 0 /\ h.ne = 0 /\ \A k \in HComps(h.op) : h.tags[k] = Empty

\* an observation answered by a configuration reached every destination of its emitter
WholeEmitter ==
    \A r \in obsLog : 1 \in Comps(r.op) => r.ne = LeavesAt(r.tags[1])

\* an observation shows the empty runtime in all components or one configuration in all
AllFiveTogether ==
    \A r \in obsLog : \A j, k \in Comps(r.op) : r.tags[j] = r.tags[k]

\* is_enabled agrees with what the components show
EnabledMeansInstalled ==
    \A r \in obsLog : \A k \in Comps(r.op) : r.en <=> r.tags[k] # Empty

\* before any initialiser has been called nothing answers: emitting, spans and flushing go
\* to the empty runtime
InertBefore ==
    ~SomeoneCalled => \A r \in obsLog : ~r.en /\ \A k \in Comps(r.op) : r.tags[k] = Empty

\* an operation that starts after some observation showed the slot enabled sees it enabled,
\* with the same configuration as every other such observation
Stable ==
    /\ \A r \in obsLog : r.must => r.en /\ \A k \in Comps(r.op) : r.tags[k] # Empty
    /\ \A r, q \in obsLog : \A j \in Comps(r.op), k \in Comps(q.op) :
          r.tags[j] # Empty /\ q.tags[k] # Empty => r.tags[j] = q.tags[k]
=============================================================================
