\* C20 sensitivity: design "percomponent" (a catalogued way of getting the slot wrong) with 2
\* initialisers, 2 observers, one operation each out of {is_enabled, probe}: TLC must reject it.
SPECIFICATION Spec
CONSTANTS
    Inits = {1, 2}
    Observers = {1, 2}
    InitKinds = {"try_init_slot", "init_slot"}
    ObsOps = {"is_enabled", "probe"}
    MaxObs = 1
    Forms = {"emit_to"}
    HandleOps = {}
    MaxHandle = 0
    Design = "percomponent"
INVARIANTS TypeOK AtMostOneWinner ExactlyOneWinner LosersNeverReceive AllFiveTogether
    EnabledMeansInstalled InertBefore Stable WholeEmitter
CHECK_DEADLOCK FALSE
