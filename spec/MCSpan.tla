------------------------------- MODULE MCSpan -------------------------------
EXTENDS Span
MC_Store1 == <<1>>
MC_Kind1 == <<"new">>
MC_None == {}
MC_NoDups == {}
MC_FormsNoRng == {"norng"}
MC_ExNone == {"gen"}
MC_ExBoth == {"gen", "all"}
MC_ExAllOnly == {"all"}
\* ids drawn by the program itself (Rng::fill / gen_*, SpanCtxt::new_root) and partly explicit ids
MC_ExSrc == {"gen", "drawn", "root", "id"}
MC_ExEvery == {"gen", "all", "drawn", "root", "id"}
MC_Forms == {"value", "ref", "option", "box", "arc", "dyn", "ambient", "stack"}

ASSUME PrintT(<<"FORMS", ToJson(CtxForms)>>)
MC_IncAll == {"both", "trace", "span"}
MC_IncBoth == {"both"}
MC_IncPartial == {"trace", "span"}
=============================================================================
