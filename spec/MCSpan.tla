------------------------------- MODULE MCSpan -------------------------------
EXTENDS Span
MC_Store1 == <<1>>
MC_Kind1 == <<"new">>
MC_None == {}
MC_IncAll == {"both", "trace", "span"}
MC_IncBoth == {"both"}
MC_IncPartial == {"trace", "span"}
=============================================================================
