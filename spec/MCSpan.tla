------------------------------- MODULE MCSpan -------------------------------
EXTENDS Span
MC_Store1 == <<1>>
MC_Kind1 == <<"new">>
MC_None == {}
MC_NoDups == {}
MC_FormsNoRng == {"norng"}
MC_ExNone == {FALSE}
MC_ExBoth == {FALSE, TRUE}
MC_Forms == {"value", "ref", "option", "box", "arc", "dyn", "ambient"}

ASSUME PrintT(<<"FORMS", ToJson(CtxForms)>>)
MC_IncAll == {"both", "trace", "span"}
MC_IncBoth == {"both"}
MC_IncPartial == {"trace", "span"}
=============================================================================
