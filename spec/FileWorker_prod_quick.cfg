\* production run, quick: max_files {1,2,3}, max size {1 (always over), 8 (two events), 1000}, reuse on/off; <= 3
\* submitted batches of ONE event (so that a flush interval of the real FileSet is exactly one on_batch call), no
\* injected fault, no crash, <= 2 clean restarts at any point, <= 1 emit of an event whose writer fails (before /
\* after partial output) at any point; the clock stays in its period.  Replayed on the REAL FileSet over the REAL
\* filesystem, system clock and rng (harness c10_file_prod), decided by FileSetTrace.tla.
\* separator {"\n", "\r\n"} x the writer ends its output with {the separator, nothing, only the last byte of a multi-byte separator, only its first byte}
SPECIFICATION Spec
CONSTANTS
    EvSize <- MC_EvSize
    MaxFilesSet = {1, 2, 3}
    MaxSizeSet = {1, 8, 1000}
    ReuseSet = {TRUE, FALSE}
    NumEvents = 4
    MaxEv = 1
    MaxBatches = 3
    MaxCalls = 3
    MaxFaults = 0
    MaxCrashes = 0
    MaxReopens = 2
    MaxFmtFail = 1
    FmtFails = {"empty", "partial"}
    SepForms = {"nl", "crlf"}
    WriterEnds = {"sep", "none", "last", "first"}
    Ticks = {"same"}
    RetryTicks = {"same"}
    Phantoms = {0}
    RidDirs = {"up"}
    MaxPeriod = 3
    MaxMs = 2
    Emit = TRUE
VIEW view
INVARIANTS Durable RecordsWellFormed RetryIsWhole AckOnlyAfterSync NoGarbage QueuedFramed
    OneFilePerBatch RollOnlyWhen MustRoll NameIs NewestFirst Retained OldestFirst NoPanic OwnSetOnly
    EnvOk ActiveIsLastGood
ACTION_CONSTRAINT EmitReplay
CHECK_DEADLOCK FALSE
