\* C18 thorough (model checking only, 1; sampled-trace filter on): 2 threads, <= 3 spans, <= 4 frames, nesting <= 2, headers sampled / unsampled other trace / invalid (no ids), Frame::current and span-frame hand-off.
SPECIFICATION Spec
CONSTANTS
    NThreads = 2
    MaxSpans = 3
    MaxFrames = 4
    MaxTasks = 0
    MaxDepth = 2
    Headers <- MC_Headers3
    InSampled = TRUE
    SnapshotOnPush = TRUE
    WithLazy = FALSE
    WithCurrent = TRUE
    FrameKinds <- MC_NoKinds
    Sampler = TRUE
    CtxForms <- MC_Forms
    Panics = TRUE
    Emit = FALSE
VIEW tview
INVARIANTS SamplerOncePerTrace DecisionGoverns UnsampledSilent SampledConsistent NoTraceNoParent FrameCarries
PROPERTIES Restored
ACTION_CONSTRAINT EmitReplay
CHECK_DEADLOCK FALSE
