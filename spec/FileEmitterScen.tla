--------------------------- MODULE FileEmitterScen ---------------------------
(***************************************************************************)
(* Enumerates the environment part of the end-to-end scenarios of the      *)
(* rolling-file emitter (harness/vh_file/src/bin/c07_file_inj.rs): every   *)
(* combination of channel capacity, worker configuration, one fault        *)
(* (kind x index of the filesystem call it hits) and one stall window      *)
(* (the write / sync_all call that blocks).  Each combination is an        *)
(* initial state; TLC prints it once (SCEN).  The emitting threads'        *)
(* programs are drawn from VERIF_SEED by the harness.                      *)
(*                                                                         *)
(* fault kinds: err = that call fails; short = a write of 1 byte then an   *)
(* error (err on other calls); burst = that call and the next 13 fail;     *)
(* nocreate = the next 12 open_new calls after that index fail (retries    *)
(* are exhausted).  at = 0: no fault.  stall = 0: no stall.                *)
(***************************************************************************)
EXTENDS Naturals, TLC, Json

CONSTANTS Caps, MaxFilesSet, MaxSizeSet, ReuseSet, FaultKinds, FaultAt, Stalls

VARIABLE s

Faults == {[kind |-> "none", at |-> 0]} \cup [kind : FaultKinds, at : FaultAt]

Scenarios == [cap : Caps, maxFiles : MaxFilesSet, maxSize : MaxSizeSet, reuse : ReuseSet,
              fault : Faults, stall : Stalls]

Init == s \in Scenarios
Next == UNCHANGED s
Spec == Init /\ [][Next]_s

Printed == PrintT(<<"SCEN", ToJson(s)>>)
=============================================================================
