--------------------------- MODULE FileEmitterScen ---------------------------
(***************************************************************************)
(* Enumerates the environment part of the end-to-end scenarios of the      *)
(* rolling-file emitter (harness/vh_file/src/bin/c07_file_inj.rs): every   *)
(* combination of channel capacity, worker configuration, one fault        *)
(* (kind x index of the filesystem call it hits) and one stall window      *)
(* (the write / sync_all call that blocks).  Each combination is an        *)
(* initial state; TLC prints it once (SCEN).  The emitting threads'        *)
(* programs are drawn from VERIF_SEED by the harness.                      *)
(*                                                                         *)
(* fault kinds: err = that call fails; short = a write of 1 byte then an   *)
(* error (err on other calls); burst = that call and the next 13 fail;     *)
(* nocreate = the next 12 open_new calls after that index fail (retries    *)
(* are exhausted).  at = 0: no fault.  stall = 0: no stall.  wfail: which   *)
(* events' writers fail (FormatFail in FileEmitterTrace.tla).              *)
(***************************************************************************)
EXTENDS Naturals, TLC, Json

CONSTANTS Caps, MaxFilesSet, MaxSizeSet, ReuseSet, FaultKinds, FaultAt, Stalls, WriterFails

VARIABLE s

Faults == {[kind |-> "none", at |-> 0]} \cup [kind : FaultKinds, at : FaultAt]

\* the front half of emit (format on the caller's thread, hand-over to the channel): the
\* writer of every `every`-th event fails, before any output ("empty") or after part of it
\* ("partial"); every = 0: all writers succeed.  WriterFails is a set of <<every, kind>>.
WFails == {[every |-> w[1], kind |-> w[2]] : w \in WriterFails}
\* (tuples cannot be written in a .cfg)
QuickWriterFails == {<<0, "none">>, <<2, "partial">>, <<3, "partial">>, <<3, "empty">>}

Scenarios == [cap : Caps, maxFiles : MaxFilesSet, maxSize : MaxSizeSet, reuse : ReuseSet,
              fault : Faults, stall : Stalls, wfail : WFails]

Init == s \in Scenarios
Next == UNCHANGED s
Spec == Init /\ [][Next]_s

Printed == PrintT(<<"SCEN", ToJson(s)>>)
=============================================================================
