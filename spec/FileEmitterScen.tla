--------------------------- MODULE FileEmitterScen ---------------------------
(***************************************************************************)
(* Enumerates the environment part of the end-to-end scenarios of the      *)
(* rolling-file emitter (harness/vh_file/src/bin/c07_file_inj.rs): every   *)
(* combination of channel capacity, worker configuration, one fault        *)
(* (kind x index of the filesystem call it hits) and one stall window      *)
(* (the write / sync_all call that blocks).  Each combination is an        *)
(* initial state; TLC prints it once (SCEN).  The emitting threads'        *)
(* programs are drawn from VERIF_SEED by the harness.                      *)
(*                                                                         *)
(* fault kinds: err = that call fails; short = a write of 1 byte then an   *)
(* error (err on other calls); burst = that call and the next 13 fail;     *)
(* nocreate = the next 12 open_new calls after that index fail (retries    *)
(* are exhausted).  at = 0: no fault.  stall = 0: no stall.  wfail: which   *)
(* events' writers fail (FormatFail in FileEmitterTrace.tla).              *)
(* tpl: the form of the file-set template: full = dir/prefix.ext; noext =  *)
(* dir/prefix (the extension is the default one); nodir = prefix.ext (the  *)
(* directory is the empty path); invalid = no file name: the REAL builder  *)
(* then returns an inert emitter (it accepts nothing, touches nothing and  *)
(* makes no filesystem call: faults and stalls do not apply to it).        *)
(* sep: the configured separator ("nl" one byte, "crlf" two); the printed   *)
(* scenario carries, for every way a writer may end its output, that       *)
(* output and the complete bytes emit queues (spec/FileFraming.tla); the   *)
(* harness gives the events' writers these endings in turn.                *)
(***************************************************************************)
EXTENDS Naturals, TLC, Json, FileFraming

CONSTANTS Caps, MaxFilesSet, MaxSizeSet, ReuseSet, FaultKinds, FaultAt, Stalls, WriterFails, Templates, Seps

VARIABLE s

Faults == {[kind |-> "none", at |-> 0]} \cup [kind : FaultKinds, at : FaultAt]

\* the front half of emit (format on the caller's thread, hand-over to the channel): the
\* writer of every `every`-th event fails, before any output ("empty") or after part of it
\* ("partial"); every = 0: all writers succeed.  WriterFails is a set of <<every, kind>>.
WFails == {[every |-> w[1], kind |-> w[2]] : w \in WriterFails}
\* (tuples cannot be written in a .cfg)
QuickWriterFails == {<<0, "none">>, <<2, "partial">>, <<3, "partial">>, <<3, "empty">>}

Scenarios == {x \in [cap : Caps, maxFiles : MaxFilesSet, maxSize : MaxSizeSet, reuse : ReuseSet,
                      fault : Faults, stall : Stalls, wfail : WFails, tpl : Templates, sep : Seps] :
                 x.tpl = "invalid" => (x.fault.kind = "none" /\ x.stall = 0)}

Init == s \in Scenarios
Next == UNCHANGED s
Spec == Init /\ [][Next]_s

Framing(f) == [we \in EndsFor(f, AllWriterEnds) |-> [out |-> WriterOut(f, we), rec |-> Queued(f, we)]]
Framed == \A f \in Seps : \A we \in EndsFor(f, AllWriterEnds) : FramedOk(f, we)

Printed == PrintT(<<"SCEN", ToJson([env |-> s, sepBytes |-> SepOf(s.sep), framing |-> Framing(s.sep)])>>)
=============================================================================
