------------------------------ MODULE OtlpAsm ------------------------------
(***************************************************************************)
(* X05 - assembly of OTLP export requests (emitter/otlp: OtlpBuilder::     *)
(* resource, OtlpTransportBuilder::headers, src/data.rs EncodedScopeItems, *)
(* the request encoders of src/data/{logs,traces,metrics}.rs).             *)
(* Delivery, retries and routing are C12 / C14 (spec/Otlp*.tla).           *)
(*                                                                         *)
(* A case: one signal over one transport ([sig, proto, gzip, path]), a     *)
(* configured resource (none, or a list of attributes [k, v], duplicate    *)
(* keys allowed), configured headers (a list, duplicates allowed) and a    *)
(* sequence of batches; a batch is the sequence of the modules of its      *)
(* events and goes out as one export request.                              *)
(*                                                                         *)
(* Level A (docs of OtlpBuilder::resource / OtlpTransportBuilder::headers, *)
(* crate docs): every request carries exactly one resource entry with      *)
(* exactly the configured attributes - one per distinct key, its value     *)
(* one of those configured for the key (WHICH one: see ResourceFirstWins)  *)
(* - one scope entry per distinct module among its events, named by the    *)
(* module, holding exactly that module's events in emission order; every   *)
(* event in exactly one scope entry; every configured header on every      *)
(* request; the content type of the encoding; the configured path (HTTP)   *)
(* or the service method of the signal (gRPC).                             *)
(*                                                                         *)
(* Level B (the code): `resource.attributes.insert(k, v)` into a HashMap   *)
(* for every attribute in turn; `items.entry(scope).or_default().push(..)` *)
(* for every event in turn; the request is the resource and the map's      *)
(* entries (in no particular order).                                       *)
(*                                                                         *)
(* ResourceFirstWins states the rule of emit's `Props` ("when a property   *)
(* is duplicated, the first for a given key is the one to use") for the    *)
(* resource; the code as it is violates it (OtlpAsm_firstwins.cfg must     *)
(* fail): recorded as a doc/code disagreement, not part of the verdict.    *)
(***************************************************************************)
EXTENDS Naturals, Sequences, FiniteSets, TLC, Json

CONSTANTS Cases,     \* set of [tr: [sig, proto, gzip, path], res: [some, attrs], hdrs, batches]
          Emit

VARIABLES case, res, reqs, phase
vars == <<case, res, reqs, phase>>

RangeOf(s) == {s[i] : i \in 1..Len(s)}
SelSeq(s, T(_)) == LET F[i \in 0..Len(s)] == IF i = 0 THEN <<>> ELSE IF T(s[i]) THEN Append(F[i - 1], s[i]) ELSE F[i - 1]
                   IN F[Len(s)]

-----------------------------------------------------------------------------
(* Level A *)
Keys(attrs) == {attrs[i].k : i \in 1..Len(attrs)}
Given(attrs, k) == {attrs[i].v : i \in {j \in 1..Len(attrs) : attrs[j].k = k}}
FirstOf(attrs, k) == attrs[CHOOSE i \in 1..Len(attrs) : attrs[i].k = k /\ \A j \in 1..(i - 1) : attrs[j].k # k].v
LastOf(attrs, k) == attrs[CHOOSE i \in 1..Len(attrs) : attrs[i].k = k /\ \A j \in (i + 1)..Len(attrs) : attrs[j].k # k].v

\* events are numbered in emission order across the batches
RECURSIVE OffsetR(_, _)
OffsetR(bs, n) == IF n = 1 THEN 0 ELSE Len(bs[n - 1]) + OffsetR(bs, n - 1)
Events(bs, n) == [j \in 1..Len(bs[n]) |-> [id |-> OffsetR(bs, n) + j, m |-> bs[n][j]]]

ScopesA(evs) ==
    {[name |-> m, ids |-> LET mine == SelSeq(evs, LAMBDA e : e.m = m) IN [i \in 1..Len(mine) |-> mine[i].id]]
        : m \in {evs[j].m : j \in 1..Len(evs)}}

ContentType(tr) ==
    CASE tr.proto = "http_json" -> "application/json"
      [] tr.proto = "http_proto" -> "application/x-protobuf"
      [] tr.proto = "grpc" -> "application/grpc+proto"
ServiceOf(sig) ==
    CASE sig = "logs" -> "/opentelemetry.proto.collector.logs.v1.LogsService/Export"
      [] sig = "traces" -> "/opentelemetry.proto.collector.trace.v1.TraceService/Export"
      [] sig = "metrics" -> "/opentelemetry.proto.collector.metrics.v1.MetricsService/Export"
PathOf(tr) == IF tr.proto = "grpc" THEN ServiceOf(tr.sig) ELSE tr.path
Compression(tr) == IF ~tr.gzip THEN "none" ELSE IF tr.proto = "grpc" THEN "grpc-encoding" ELSE "content-encoding"

-----------------------------------------------------------------------------
(* Level B *)
\* HashMap::insert for every attribute in turn
RECURSIVE InsertAll(_, _, _)
InsertAll(map, attrs, i) ==
    IF i > Len(attrs) THEN map
    ELSE InsertAll([k \in DOMAIN map \cup {attrs[i].k} |-> IF k = attrs[i].k THEN attrs[i].v ELSE map[k]], attrs, i + 1)
EmptyMap == [k \in {} |-> 0]

\* EncodedScopeItems::push for every event in turn
RECURSIVE PushAll(_, _, _)
PushAll(items, evs, j) ==
    IF j > Len(evs) THEN items
    ELSE LET m == evs[j].m
             cur == IF m \in DOMAIN items THEN items[m] ELSE <<>>             \* entry(scope).or_default()
         IN PushAll([k \in DOMAIN items \cup {m} |-> IF k = m THEN Append(cur, evs[j].id) ELSE items[k]], evs, j + 1)

\* one request: `resource_x: &[ResourceX { resource, scope_x: items }]`
RequestB(resmap, evs) ==
    LET items == PushAll(EmptyMap, evs, 1)
    IN [entries |-> 1, scopes |-> {[name |-> m, ids |-> items[m]] : m \in DOMAIN items}]

Init == case \in Cases /\ res = EmptyMap /\ reqs = <<>> /\ phase = "ready"

Assemble ==
    /\ phase = "ready" /\ phase' = "done" /\ UNCHANGED case
    /\ res' = IF case.res.some THEN InsertAll(EmptyMap, case.res.attrs, 1) ELSE EmptyMap
    /\ reqs' = [n \in 1..Len(case.batches) |-> RequestB(res', Events(case.batches, n))]

Next == Assemble
Spec == Init /\ [][Next]_vars

-----------------------------------------------------------------------------
(* Properties *)
Done == phase = "done"
AllIds(n) == {Events(case.batches, n)[j].id : j \in 1..Len(case.batches[n])}

OneResourceEntry == Done => \A n \in 1..Len(reqs) : reqs[n].entries = 1
ResourceKeysExact == Done /\ case.res.some => DOMAIN res = Keys(case.res.attrs)
ResourceValueGiven == Done /\ case.res.some => \A k \in DOMAIN res : res[k] \in Given(case.res.attrs, k)
ScopePerModule == Done => \A n \in 1..Len(reqs) : reqs[n].scopes = ScopesA(Events(case.batches, n))
EveryEventOnce == Done => \A n \in 1..Len(reqs) :
    /\ UNION {RangeOf(s.ids) : s \in reqs[n].scopes} = AllIds(n)
    /\ \A s \in reqs[n].scopes : \A a, b \in 1..Len(s.ids) : a < b => s.ids[a] < s.ids[b]      \* emission order, no repeats
    /\ \A s, u \in reqs[n].scopes : s # u => RangeOf(s.ids) \cap RangeOf(u.ids) = {}
    /\ \A s, u \in reqs[n].scopes : s # u => s.name # u.name                                    \* one entry per module

\* the rule of `Props` applied to the resource - NOT what the code does
ResourceFirstWins == Done /\ case.res.some => \A k \in DOMAIN res : res[k] = FirstOf(case.res.attrs, k)

CaseJson(c) ==
    [tr |-> c.tr, res |-> c.res, hdrs |-> c.hdrs, batches |-> c.batches,
     expect |-> [content_type |-> ContentType(c.tr), path |-> PathOf(c.tr), compression |-> Compression(c.tr),
                 headers |-> c.hdrs,
                 res_keys |-> IF c.res.some THEN Keys(c.res.attrs) ELSE {},
                 res_given |-> IF c.res.some THEN {[k |-> k, vs |-> Given(c.res.attrs, k), first |-> FirstOf(c.res.attrs, k)] : k \in Keys(c.res.attrs)} ELSE {},
                 requests |-> [n \in 1..Len(c.batches) |-> ScopesA(Events(c.batches, n))]]]

EmitReplay == Emit => PrintT(<<"REPLAY", ToJson(CaseJson(case'))>>)
=============================================================================
