\* C05 quick: every sequence (any length) of the 11 guard operations over 1 alternative
\* module / name / property value, completions new{rec1,dflt,dfltL} with{rec2,dflt}
\* complete_with{rec3,dfltL,ok,err,errM}, 6 clock scripts (forwards, backwards, standing still, no
\* reading at start / at completion / at all), both filter verdicts, forms
\* none/plain/setup/result/resultM/guard/newspan, operations inside and after the frame;
\* complete / complete_with / drop also while the thread is unwinding.
SPECIFICATION Spec
CONSTANTS
    Mdls = {"m1"}
    Names = {"n1"}
    PropVals = {1}
    NewComps = {"rec1", "dflt", "dfltL"}
    WithComps = {"rec2", "dflt"}
    CwComps = {"rec3", "dfltL", "ok", "err", "errM"}
    Scripts <- MC_ScriptsThorough
    Forms = {"none", "plain", "setup", "result", "resultM", "guard", "newspan"}
    Frames = {"in", "out"}
    MaxLen = 0
    F2Bug = FALSE
    Emit = TRUE
VIEW view
INVARIANTS TypeOK AtMostOnce ExactlyOnceIffEnabledStarted EnabledIsFilterVerdict
    ReturnValueTruthful ExtentIsStartToEnd CarriesLatestData PanicAddsErrAndLevel
    RefinesStatement LiveGuardWhole SetupBracketsSpan
PROPERTY ProbesAgree
ACTION_CONSTRAINT EmitReplay
CHECK_DEADLOCK FALSE
