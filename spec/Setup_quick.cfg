\* X03 quick: every sequence of <= 4 builder calls out of 23 (emit_to / and_emit_to x 3 destinations, map_emitter {when has_a, when ctx1,
\* drop, id}, emit_when / and_emit_when x {has_a, ctx1, timed}, with_ctxt {1, 2}, map_ctxt plus, with_clock {no reading, 7}, with_rng {1, 2});
\* 4 events (none / a / b with own extent / a+b) x {through the runtime, directly through its emitter}. Exhaustive.
SPECIFICATION Spec
CONSTANTS
    Dests = {1, 2, 3}
    Preds = {"has_a", "ctx1", "timed"}
    WrapPreds = {"has_a", "ctx1"}
    Ctxts = {1, 2}
    Clocks = {0, 7}
    Rngs = {1, 2}
    Events <- MC_Events
    SysT = 99
    MaxCalls = 4
    Emit = TRUE
VIEW view
INVARIANTS BuilderRefinesAlgebra OncePerRegistration FilterOnlyRemoves
PROPERTY LastEmitToWins
ACTION_CONSTRAINT EmitReplay
CHECK_DEADLOCK FALSE
