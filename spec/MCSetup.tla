------------------------------ MODULE MCSetup ------------------------------
EXTENDS Setup
\* nothing; a; b with an own extent; a and b
MC_Events == {[a |-> FALSE, b |-> FALSE, ext |-> 0], [a |-> TRUE, b |-> FALSE, ext |-> 0],
              [a |-> FALSE, b |-> TRUE, ext |-> 3], [a |-> TRUE, b |-> TRUE, ext |-> 0]}
=============================================================================
