\* Batcher q6: s1 = send,send; s2 = async tokio send (no timeout); f1 = blocking flush (timeout 0); Cap 1, MaxRetry 10 (hard-coded by bounded()), <= 2 processor faults, FALSE remainders, receiver kill FALSE; idle spinning cut at 3 ms. Exhaustive.
SPECIFICATION Spec
CONSTANTS
    SenderOps <- Q6_SenderOps
    FlusherOps <- Q6_FlusherOps
    Cap = 1
    MaxRetry = 10
    MaxFail = 2
    AnyRemainder = FALSE
    NonEmptyRem = FALSE
    OutcomeSet = {"ok", "fail", "retry", "panic", "panicFut"}
    AllowKill = FALSE
    MaxIdleDelay = 3
    Emit = TRUE
VIEW view
CONSTRAINT IdleBound
INVARIANTS TypeOK Bounded Partition StatusConsistent TruncCounted FlushMeansDone FlushRetTruthful RetryBounded BackoffBounded CallbackOnce SendNeverWaits
ACTION_CONSTRAINT EmitReplay
CHECK_DEADLOCK FALSE
