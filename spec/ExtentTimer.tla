---------------------------- MODULE ExtentTimer ----------------------------
(***************************************************************************)
(* X02 - `Timer` (src/timer.rs): a start reading of a clock that is not    *)
(* guaranteed to be monotonic, or to produce a reading at all.             *)
(*                                                                         *)
(* Level A (the docs): the extent of a timer is the range from the initial *)
(* reading to the current reading - also when the clock went backwards or  *)
(* did not move - and nothing when either reading is missing; the elapsed  *)
(* time is the time between the two readings, and nothing when a reading   *)
(* is missing or the clock shifted to before the initial reading; every    *)
(* such query reads the clock exactly once; the start timestamp is the     *)
(* initial reading and reads nothing.  Borrowed (`by_ref`) and copied      *)
(* timers answer like the original.                                        *)
(* Level B (the code): `extent` matches on (start, now); `elapsed` is      *)
(* `extent().and_then(len)` with Duration::checked_sub.                    *)
(*                                                                         *)
(* The environment picks each clock reading when it is taken.              *)
(***************************************************************************)
EXTENDS ExtentBase, Json

CONSTANTS MaxOps,    \* queries after the start
          Emit

\* queries; the second component says which timer value is asked
Queries == {"extent", "elapsed", "to_extent", "start_timestamp",
            "by_ref.extent", "by_ref.elapsed", "by_ref.start_timestamp", "copy.extent", "copy.elapsed"}
Reading(q) == q \notin {"start_timestamp", "by_ref.start_timestamp"}     \* does the query read the clock?
Kind(q) == IF q \in {"extent", "to_extent", "by_ref.extent", "copy.extent"} THEN "extent"
           ELSE IF q \in {"elapsed", "by_ref.elapsed", "copy.elapsed"} THEN "elapsed"
           ELSE "start"

VARIABLES on,        \* has the timer been started?
          started,   \* the initial reading (an instant or Absent)
          nops,
          last,      \* the last query: [q, now, res] with res the level-B answer
          hist
vars == <<on, started, nops, last, hist>>
view == <<on, started, nops, last>>

-----------------------------------------------------------------------------
(* Level A *)
ExtentA(start, now) == IF start # Absent /\ now # Absent THEN RangeX(start, now) ELSE NoX
ElapsedA(start, now) == IF start # Absent /\ now # Absent THEN SinceA(now, start) ELSE Absent

\* the answer as the harness can observe it
AnswerA(q, start, now) ==
    CASE Kind(q) = "extent" -> [kind |-> "extent", obs |-> ObsA(ExtentA(start, now)), dur |-> Absent, ts |-> Absent]
      [] Kind(q) = "elapsed" -> [kind |-> "elapsed", obs |-> ObsA(NoX), dur |-> ElapsedA(start, now), ts |-> Absent]
      [] OTHER -> [kind |-> "start", obs |-> ObsA(NoX), dur |-> Absent, ts |-> start]

(* Level B *)
ExtentB(start, now) ==
    \* match (self.start, end) { (Some(start), Some(end)) => Some(Extent::range(start..end)), _ => None }
    IF start # Absent /\ now # Absent THEN RangeB(start, now) ELSE NoneB
ElapsedB(start, now) ==
    \* self.extent().and_then(|extent| extent.len())
    LET x == ExtentB(start, now) IN IF x.isnone THEN Absent ELSE LenB(x)

AnswerB(q, start, now) ==
    CASE Kind(q) = "extent" -> [kind |-> "extent", obs |-> ObsB(ExtentB(start, now)), dur |-> Absent, ts |-> Absent]
      [] Kind(q) = "elapsed" -> [kind |-> "elapsed", obs |-> ObsB(NoneB), dur |-> ElapsedB(start, now), ts |-> Absent]
      [] OTHER -> [kind |-> "start", obs |-> ObsB(NoneB), dur |-> Absent, ts |-> start]

-----------------------------------------------------------------------------
NoQuery == [q |-> "none", now |-> Absent, res |-> AnswerB("start_timestamp", Absent, Absent)]

Init ==
    /\ on = FALSE
    /\ started = Absent
    /\ nops = 0
    /\ last = NoQuery
    /\ hist = <<>>

Start(r) ==
    /\ ~on
    /\ on' = TRUE
    /\ started' = r
    /\ hist' = <<[q |-> "start", reads |-> 1, now |-> r, want |-> AnswerA("start_timestamp", r, Absent)]>>
    /\ UNCHANGED <<nops, last>>

Query(q, r) ==
    /\ on
    /\ nops < MaxOps
    /\ Reading(q) \/ r = Absent          \* no reading is taken: nothing to choose
    /\ nops' = nops + 1
    /\ last' = [q |-> q, now |-> r, res |-> AnswerB(q, started, r)]
    /\ hist' = Append(hist, [q |-> q, reads |-> IF Reading(q) THEN 1 ELSE 0, now |-> r,
                             want |-> AnswerA(q, started, r)])
    /\ UNCHANGED <<on, started>>

Next ==
    \/ \E r \in OptInstants : Start(r)
    \/ \E q \in Queries, r \in OptInstants : Query(q, r)

Spec == Init /\ [][Next]_vars

-----------------------------------------------------------------------------
(* Properties *)
TimerRefines == last.q # "none" => last.res = AnswerA(last.q, started, last.now)

\* the extent of a timer is a range whenever it exists, whatever the clock did
TimerExtentIsRange ==
    last.q # "none" /\ Kind(last.q) = "extent" /\ last.res.obs.some => last.res.obs.is_range

\* elapsed exists exactly when both readings exist and the clock did not go backwards
ElapsedDefined ==
    last.q # "none" /\ Kind(last.q) = "elapsed" =>
        (last.res.dur # Absent <=> (started # Absent /\ last.now # Absent /\ LeI(started, last.now)))

\* the start timestamp never changes
StartStable == [][on => started' = started /\ on']_vars

EmitReplay == Emit => PrintT(<<"REPLAY", ToJson([ops |-> hist'])>>)
=============================================================================
