----------------------------- MODULE MCBatcher -----------------------------
EXTENDS Batcher
\* quick: two senders (a plain one with two items, a blocking one), one waiting flusher
Q_SenderOps == [s1 |-> <<"send", "send">>, s2 |-> <<"blockInf">>]
Q_FlusherOps == [f1 |-> "flushInf"]
\* second quick config: fallible sends, a zero-timeout flusher and a panicking callback
Q2_SenderOps == [s1 |-> <<"try", "send">>, s2 |-> <<"block0">>]
Q2_FlusherOps == [f1 |-> "flush0", f2 |-> "cbPanic"]
\* third quick config: a panicking callback and a waiting flusher on the same batch
Q3_SenderOps == [s1 |-> <<"sendS", "try">>]
Q3_FlusherOps == [f1 |-> "cbPanic", f2 |-> "flushInf", f3 |-> "cbPanic"]
\* fourth quick config: the async tokio flush and a callback that blocks the receiver
Q4_SenderOps == [s1 |-> <<"send", "send", "send">>, s2 |-> <<"weCb">>]
\* sixth quick config: the async tokio::send racing with plain sends
Q6_SenderOps == [s1 |-> <<"send", "send">>, s2 |-> <<"blockTokio">>]
Q6_FlusherOps == [f1 |-> "flush0"]
Q4_FlusherOps == [f1 |-> "flushTokio", f2 |-> "cbPark"]
\* seventh quick config: one thread flushes twice (a timed-out flush, then a waiting one)
Q7_SenderOps == [s1 |-> <<"send", "sendS">>]      \* the second send is issued from inside a sampler of the channel's own metrics
Q7_FlusherOps == [f1 |-> "flush0", f2 |-> "flushInfSame"]
\* eighth quick config: raw when_empty callbacks that panic (inline on the caller, or on the receiver)
Q8_SenderOps == [s1 |-> <<"weCbPanic", "send">>, s2 |-> <<"send", "weCbPanic", "try">>]
Q8_FlusherOps == [f1 |-> "flushInf"]
\* liveness with the newer actor kinds
L2_SenderOps == [s1 |-> <<"send", "send">>, s2 |-> <<"weCb">>]
L2_FlusherOps == [f1 |-> "flushTokio", f2 |-> "cbPark"]
\* kill: the receiver future is dropped at an await point
K_SenderOps == [s1 |-> <<"send", "blockInf">>, s2 |-> <<"try">>]
K_FlusherOps == [f1 |-> "flush0"]
\* thorough
T_SenderOps == [s1 |-> <<"send", "send", "try">>, s2 |-> <<"blockInf", "send">>]
T_FlusherOps == [f1 |-> "flushInf", f2 |-> "flush0"]
T2_SenderOps == [s1 |-> <<"send", "send">>, s2 |-> <<"send", "blockInf">>, s3 |-> <<"try">>]
T2_FlusherOps == [f1 |-> "flushInf"]
\* retry exhaustion: one item, every attempt fails
R_SenderOps == [s1 |-> <<"send">>]
R_FlusherOps == [f1 |-> "flushInf"]
\* retry budget is per batch: two items, enough faults to exhaust one batch and fail the next
R2_SenderOps == [s1 |-> <<"send", "send">>]
R2_FlusherOps == <<>>
\* refinement: Batcher implements the distilled queue discipline BatcherCore (for which TLAPS
\* proves []Bounded for every capacity and item set)
Core == INSTANCE BatcherCore WITH Elem <- Items
CoreSpec == Core!Spec
\* refinement: Batcher implements the unbounded item ledger BatcherLedger (for which TLAPS proves
\* NothingLost, NothingTwice, InOrder, FlushMeansDone, RetryBounded and Bounded for every capacity,
\* retry budget, number of items and number of watchers).  Items are numbered by their position
\* in the acceptance order.
Pos(i) == CHOOSE k \in 1..Len(accepted) : accepted[k] = i
WithStatus(S) == {Pos(i) : i \in {j \in Items : status[j] \in S}}
L_place == [f \in Flushers |->
              IF fpc[f] = "start" THEN "none"
              ELSE IF ffired[f] = "yes" THEN "fired"
              ELSE IF ffired[f] = "yesDead" THEN "lost"
              ELSE IF f \in SeqSet(pendFlush) THEN "pend"
              ELSE IF f \in SeqSet(curFlush) \cup SeqSet(cbRest) THEN "cur"
              ELSE "lost"]
Ledger == INSTANCE BatcherLedger WITH
    Watchers <- Flushers,
    n <- Len(accepted),
    lo <- Len(accepted) - Len(pending) + 1,
    hi <- IF taken = <<>> THEN 0 ELSE Pos(taken[Len(taken)]),
    inBatch <- isInBatch,
    dead <- (rpc = "dead"),
    trunc <- WithStatus({"trunc"}),
    done <- WithStatus({"done"}),
    u <- WithStatus({"inflight", "retrywait"}),
    orphan <- WithStatus({"orphan"}),
    place <- L_place,
    snap <- [f \in Flushers |-> Cardinality(fsnap[f])]
LedgerSpec == Ledger!Spec
LedgerSafe == Ledger!Safe
=============================================================================
