\* Batcher q3: s1 = send, try_send; f1, f3 = panicking flush callbacks; f2 = blocking flush (no timeout); Cap 2, MaxRetry 10 (hard-coded by bounded()), <= 1 processor faults, TRUE remainders, receiver kill FALSE; idle spinning cut at 3 ms. Exhaustive.
SPECIFICATION Spec
CONSTANTS
    SenderOps <- Q3_SenderOps
    FlusherOps <- Q3_FlusherOps
    Cap = 2
    MaxRetry = 10
    MaxFail = 1
    AnyRemainder = TRUE
    NonEmptyRem = FALSE
    OutcomeSet = {"ok", "fail", "retry", "panic", "panicFut"}
    AllowKill = FALSE
    MaxIdleDelay = 3
    Emit = TRUE
VIEW view
CONSTRAINT IdleBound
INVARIANTS TypeOK Bounded Partition StatusConsistent TruncCounted FlushMeansDone FlushRetTruthful RetryBounded BackoffBounded CallbackOnce SendNeverWaits
ACTION_CONSTRAINT EmitReplay
CHECK_DEADLOCK FALSE
