\* X07 quick: 7 instants (epoch, +1ns, 1s-1ns, 1s, mid, MAX-1ns, MAX) x 8 durations (0, 1ns, 1s-1ns, 1s, mid, MAX, MAX+1ns, Duration::MAX) for
\* checked_add/sub and the operators; 7 x 7 for duration_since / order; 7 x 7 x 8 for monotonicity; from_unix of all 15; to_parts / from_parts
\* of 12 dates (leap days, 2038/2039 path switch, 2100, 2400, 9999-12-31) x 4 times of day; 30 parts with fields beyond their maximum / out of range.
SPECIFICATION Spec
CONSTANTS
    Instants <- MC_Instants
    Durations <- MC_Durations
    Dates <- MC_Dates
    Clocks <- MC_Clocks
    Overflows <- MC_Overflows
    Which = "quick"
    Emit = TRUE
INVARIANTS FromUnixRule CheckedOpsRule AddSubInverse SinceRule Monotone PartsRule OverflowRule
ACTION_CONSTRAINT EmitReplay
CHECK_DEADLOCK FALSE
