\* Flush quick: destination trees of depth <= 2 over 4 leaf destinations (each used at most once), none,
\* And and six wrappers; every assignment of flush answers; caller timeout 1024 ms. Exhaustive.
SPECIFICATION Spec
CONSTANTS
    LeafIds = {1, 2, 3, 4}
    Depth = 2
    Timeout = 1024
    Emit = TRUE
INVARIANTS FlushIsConjunction EveryLeafOnceInOrder BudgetRespected LeafGetsTime
ACTION_CONSTRAINT EmitReplay
CHECK_DEADLOCK FALSE
