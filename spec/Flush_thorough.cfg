\* Flush quick: destination trees of depth <= 2 over 4 leaf destinations (each used at most once), none,
\* And and six wrappers; every assignment of flush answers;
\* 17 entries (direct / erased / Runtime / Default / Setup::init_runtime, map_emitter, and_emit_to / Init, InitGuard (drop, unwind),
\* slot.get on an own slot, uninitialised and lost slot / emit::blocking_flush and guard on the shared slot); 
\* the in-process entries with every tree, the three process-global ones (one process per case) with the trees of depth <= 1; caller timeout 1024 ms. Exhaustive.
SPECIFICATION Spec
CONSTANTS
    LeafIds = {1, 2, 3, 4}
    Depth = 2
    Timeout = 1024
    Entries = {"direct", "erased", "runtime", "default_rt", "init_runtime", "map_emitter", "and_emit_to", "init_flush", "init_get", "slot_get", "guard_drop", "guard_unwind", "uninit", "lost", "shared", "shared_guard", "shared_uninit"}
    DeepEntries = {"direct", "erased", "runtime", "default_rt", "init_runtime", "map_emitter", "and_emit_to", "init_flush", "init_get", "slot_get", "guard_drop", "guard_unwind", "uninit", "lost"}
    ShallowDepth = 1
    Emit = TRUE
INVARIANTS FlushIsConjunction EveryLeafOnceInOrder BudgetRespected LeafGetsTime
ACTION_CONSTRAINT EmitReplay
CHECK_DEADLOCK FALSE
