\* X01 thorough: scenarios  order: <= 3 add_source of {L1, L2, L3, None, L2.and(L1)} interleaved with clock settings {system, off, fixed 37s} and
\* sample calls, <= 5 calls;  compose: one source tree of depth <= 2 (and, or, Some, &, Box, Arc, erased, nested Reporter with clock
\* off / no reading / 1s / 37s and <= 2 sources; depth 2 with any of L1..L4, None as the other operand) over leaves L1 (no extent, 1s range), L2 (point), L3 (no
\* samples), L4 (backwards range, 37s range), None;  norm: one sample of every extent over 6 instants (epoch, 0.999999999s, 1s, 10^9s+5ns,
\* 1.000000001s, 37s) x every clock (system, off, no reading, every instant);  nested: the same under a nested Reporter x 4 outer clocks.
SPECIFICATION Spec
CONSTANTS
    Instants <- MC_Instants
    Scens <- MC_Scens
    Addable <- MC_Addable
    ClocksOf <- MC_ClocksOf
    MaxAdds <- MC_MaxAdds
    MaxOps <- MC_MaxOps
    SysNow <- MC_SysNow
    Which = "thorough"
    Emit = TRUE
VIEW view
INVARIANTS RefinesA EverySourceOnceInOrder EverySampleOnce NormalisedShape Untouched ClockReadOnce
ACTION_CONSTRAINT EmitReplay
CHECK_DEADLOCK FALSE
