\* C02 quick, macro call sites: identifiers out of {a, b, c, r#type}, <= 3 keys per site, per-key feature plain /
\* #[emit::key] renamed smaller, larger, non-identifier / #[emit::optional] None / #[cfg(any())]; <= 2 non-plain keys;
\* all 12 features on single-key sites; distinct final names.
SPECIFICATION Spec
CONSTANTS
    KeyOrder <- MC_KeyOrder
    IdOrder <- MC_IdOrder
    NModes <- MC_NModes
    Seeds <- MC_Seeds
    Rights <- MC_Rights
    Wraps <- MC_Wraps
    SpanPrefix <- MC_SpanPrefix
    MetricPrefix <- MC_MetricPrefix
    Which = "sites_quick"
    GrowLeaves <- MC_GrowLeaves
    MaxGrow = 0
    MacroGet = "bsearch_scan"
    Emit = TRUE
INVARIANTS GetIsFirst DedupOnceFirst UniqueClaimSound BreakStops EnumIsSpec SerIsEnum
ACTION_CONSTRAINT EmitReplay
CHECK_DEADLOCK FALSE
