\* C01 quick: events = own props {<>, a, b, aa, ab} x extent {none, point, forward / empty / inverted range} x ambient {<>, a, b, ba}
\* x clock {none, 7}; entries rt, Emitter-for-Runtime, emit_core::emit, emit!, info!, emit!(evt: Event), emit!(evt: evt!(..)),
\* Span / Metric events, span guards (programmatic and new_span!, clock readings forward / equal / backwards), direct;
\* E: every event x 11 leaf predicates as runtime filter (entries rt, emit!, emit!(evt:), direct; 3 predicates for
\*    emit_core::emit and Emitter-for-Runtime) and as call-site `when` filter over a rejecting runtime filter;
\* F: all filter trees of depth <= 2 over {true,false} (1009) and depth <= 1 over 4 predicates, as runtime and as call-site filter;
\* D: all destination trees of depth <= 2 (685: leaf, None, Some, and_to, wrap_emitter(from_filter(5 filters)), wrapping::from_fn
\*    drop/pass/prepend, nested Runtime (2 settings), &, Box, Arc, erased, AssertInternal)
\*    x own/ambient x accepting/rejecting filter x entries rt, direct, emit!; depth <= 1 for the other entries.
\* R: a nested Runtime as destination: 9 filter predicates x ambient {<>, a, b} x clock {none, 9} x 3 destination trees x 32 events, rt / direct.
\* W: forms: wrappings by value / borrowed / type-erased (with and without Send + Sync), fn-pointer filters and destinations,
\*    filter::always(), events built with with_* / map_props and passed borrowed + erased.
\* V: forms of the runtime's context / clock / rng: by value, &, Box, Arc, Some, Box<dyn Erased..>, AssertInternal, None, Empty
\*    x events with / without extent x 4 ambient sets x clock {none, 7} x 3 filter predicates.
SPECIFICATION Spec
CONSTANTS
    Scens <- MC_Scens
    Scen <- MC_Scen
    Which = "quick"
    ClockT <- MC_ClockT
    Emit = TRUE
INVARIANTS ExactlyOnce WrappersTransparent DirectBypass ShortCircuit
ACTION_CONSTRAINT EmitReplay
CHECK_DEADLOCK FALSE
