-------------------------- MODULE FileEmitterTrace --------------------------
(***************************************************************************)
(* C07 / C09 / C10 carried through to the whole rolling-file emitter       *)
(* (code -> spec).  Traces are recorded from a REAL emit_file::FileSet     *)
(* (real FileSetInner::emit / blocking_flush, real emit_batcher channel    *)
(* and worker thread, real Worker::on_batch) running over the injected,    *)
(* fault-injecting and stallable in-memory filesystem of harness/vh_file,  *)
(* with several emitting threads.  Events are ordered by one global        *)
(* sequence number (emit_batcher::verif::next_seq): harness events take    *)
(* theirs before a request / after a return, channel events while the      *)
(* channel's lock is held, filesystem calls while the filesystem's lock    *)
(* is held.                                                                *)
(*                                                                         *)
(*  reset(sid,cap,maxFiles,maxSize)  a new scenario                        *)
(*  Send(e,trunc,pushed,pending) the channel's send critical section for   *)
(*                               event e (trunc: the queue was cleared)    *)
(*  Emit(e)                      FileSet::emit(e) returned (writer succeeded)*)
(*  FormatFail(e,kind)           FileSet::emit(e) returned; the writer of  *)
(*                               e failed before ("empty") or after part   *)
(*                               of its output ("partial")                 *)
(*  Discard(e)                   FileSet::emit(e) returned on an INERT     *)
(*                               emitter (reset.inert: its build failed,   *)
(*                               there is no channel): e is not accepted   *)
(*  QLen(n)                      the queue_length metric sampled after it  *)
(*  FlushReq(w) FlushRet(w,ret)  blocking_flush about to be called / done  *)
(*  Take(n)                      the worker thread took the queue (n items)*)
(*  Begin(p,ms)                  on_batch entered, the clock read (p,ms)   *)
(*  call(op,n,tok,res)           a filesystem call (as in FileSetTrace)    *)
(*  End(res,nrest)               on_batch returned; nrest items to retry   *)
(*  BatchEnd                     the channel is done with the batch        *)
(*  Stall / Unstall              a filesystem call blocks / is released    *)
(*  EmitBlocked(e)               emit(e) did not return within 5 s         *)
(*  ChanOther(kind)              the emitter used another channel entry    *)
(*                               point than the plain send                 *)
(*  Fin(truncated,formatFailed)  end: the queue_full_truncated and         *)
(*                               event_format_failed metrics               *)
(*                                                                         *)
(* The monitor is deterministic.  The file-level effects and clauses are   *)
(* FileSetBase's; the queue is modelled exactly (queue, batch).  Clauses   *)
(* of this level, collected in ebad:                                       *)
(*  FlushMeansProcessed (C07) FlushRet(w,TRUE) => every event whose emit   *)
(*     returned before FlushReq(w) was reported written (and then Durable  *)
(*     puts it in synced content), or its batch failed for good (not       *)
(*     retryable, retries exhausted, panic), or an overflow truncation     *)
(*     dropped it: none is queued, in flight or waiting for a retry.       *)
(*  QueueBounded (C09) the queue never holds more than cap events.         *)
(*  DropsOldestCounted (C09) a send clears the queue iff it is full, keeps *)
(*     the new event, and the truncation metric counts exactly these.      *)
(*  EmitNeverBlocks (C09) every emit returns, also while the filesystem    *)
(*     is stalled, and only uses the plain send.                           *)
(*  (C10) NoGarbage / RecordsWellFormed / Durable ... of FileSetBase: what *)
(*     reaches the files are whole events, separator included.             *)
(*  FormatFailDiscarded (C10) an event whose writer failed is discarded as *)
(*     a whole: it is never handed to the channel (and, by NoGarbage, no   *)
(*     byte of it reaches a file - in particular not as the head of the    *)
(*     next event formatted on that thread).                               *)
(*  FormatFailCounted the event_format_failed metric counts exactly these. *)
(***************************************************************************)
EXTENDS FileSetBase, Json, IOUtils

Rec == ndJsonDeserialize(IOEnv.TRACE)

VARIABLES
    o,        \* file level (FileSetBase)
    l,        \* position in the trace
    sbad,     \* state clauses of FileSetBase broken so far in this scenario
    ebad,     \* clauses of this level broken so far
    sid,      \* scenario id
    q,        \* [cap, queue, batch, ntrunc]: the channel
    ev        \* [emitted, reqs, failed, dropped, stalled, stallEmits]
evars == <<o, l, sbad, ebad, sid, q, ev>>

Q0(cap) == [cap |-> cap, queue |-> <<>>, batch |-> <<>>, ntrunc |-> 0, sent |-> {}]
Ev0 == [emitted |-> {}, reqs |-> <<>>, failed |-> {}, dropped |-> {}, stalled |-> FALSE, stallEmits |-> 0,
        fmtFailed |-> {}, inertDiscarded |-> {}]

EInit == o = ObsInit(1, 1) /\ l = 1 /\ sbad = {} /\ ebad = {} /\ sid = -1 /\ q = Q0(1) /\ ev = Ev0

EVerdict ==
    PrintT(<<"VERDICT", ToJson([sid |-> sid, bad |-> o.bad \cup sbad \cup StateBadOf(o) \cup ebad,
                                stallEmits |-> ev.stallEmits, ntrunc |-> q.ntrunc,
                                nfailed |-> Cardinality(ev.failed), nacked |-> Cardinality(o.acked),
                                nfmt |-> Cardinality(ev.fmtFailed), ndisc |-> Cardinality(ev.inertDiscarded)])>>)

Suffix(s, n) == IF n >= Len(s) THEN s ELSE SubSeq(s, Len(s) - n + 1, Len(s))

Flag(c, name) == IF c THEN {} ELSE {name}

Step(r) ==
    CASE r.ev = "Send" ->
            LET full == Len(q.queue) >= q.cap
                q1 == IF r.trunc = 1 THEN <<>> ELSE q.queue
                q2 == IF r.pushed = 1 THEN Append(q1, r.e) ELSE q1
            IN /\ q' = [q EXCEPT !.queue = q2, !.ntrunc = @ + r.trunc, !.sent = @ \cup {r.e}]
               /\ ev' = [ev EXCEPT !.dropped = IF r.trunc = 1 THEN @ \cup SeqRange(q.queue) ELSE @]
               /\ ebad' = ebad \cup Flag((r.trunc = 1) <=> full, "DropsOldestCounted")
                               \cup Flag(r.pushed = 1, "DropsOldestCounted")
                               \cup Flag(Len(q2) <= q.cap /\ r.pending <= q.cap, "QueueBounded")
                               \cup Flag(Len(q2) = r.pending, "QueueModel")
                               \cup Flag(r.e \notin ev.fmtFailed \cup ev.inertDiscarded, "FormatFailDiscarded")
               /\ UNCHANGED o
      [] r.ev = "Emit" ->
            /\ ev' = [ev EXCEPT !.emitted = @ \cup {r.e},
                                !.stallEmits = IF ev.stalled THEN @ + 1 ELSE @]
            /\ UNCHANGED <<o, q, ebad>>
      [] r.ev = "FormatFail" ->
            /\ ev' = [ev EXCEPT !.fmtFailed = @ \cup {r.e}]
            /\ ebad' = ebad \cup Flag(r.e \notin q.sent, "FormatFailDiscarded")
            /\ UNCHANGED <<o, q>>
      \* an inert emitter discards what it is given as a whole: nothing is handed to a channel
      \* (and nothing it was given is owed by a later flush)
      [] r.ev = "Discard" ->
            /\ ev' = [ev EXCEPT !.inertDiscarded = @ \cup {r.e}]
            /\ ebad' = ebad \cup Flag(r.e \notin q.sent, "FormatFailDiscarded")
            /\ UNCHANGED <<o, q>>
      [] r.ev = "QLen" ->
            /\ ebad' = ebad \cup Flag(r.n <= q.cap, "QueueBounded")
            /\ UNCHANGED <<o, q, ev>>
      [] r.ev = "FlushReq" ->
            /\ ev' = [ev EXCEPT !.reqs = (r.w :> ev.emitted) @@ @]
            /\ UNCHANGED <<o, q, ebad>>
      [] r.ev = "FlushRet" ->
            /\ ebad' = ebad \cup
                 Flag(r.ret => (r.w \in DOMAIN ev.reqs /\
                                \A e \in ev.reqs[r.w] : e \in o.acked \/ e \in ev.failed \/ e \in ev.dropped),
                      "FlushMeansProcessed")
            /\ UNCHANGED <<o, q, ev>>
      [] r.ev = "Take" ->
            /\ q' = [q EXCEPT !.batch = q.queue, !.queue = <<>>]
            /\ ebad' = ebad \cup Flag(r.n = Len(q.queue), "QueueModel")
            /\ UNCHANGED <<o, ev>>
      [] r.ev = "Begin" ->
            LET evs == IF o.rest # <<>> THEN o.rest ELSE q.batch
            IN /\ o' = ObsBegin(o, evs, SeqBytes(evs), r.p, r.ms)
               /\ UNCHANGED <<q, ev, ebad>>
      [] r.ev = "call" ->
            /\ o' = ObsCall(o, r.op, r.n, r.tok, r.res)
            /\ UNCHANGED <<q, ev, ebad>>
      [] r.ev = "End" ->
            LET rest == IF r.res = "retry" THEN Suffix(o.evs, r.nrest) ELSE <<>>
                final == r.res \in {"noretry", "panic"} \/ (r.res = "retry" /\ rest = <<>>)
            IN /\ o' = ObsEnd(o, r.res, rest)
               /\ ev' = [ev EXCEPT !.failed = IF final THEN @ \cup SeqRange(o.chain) ELSE @]
               /\ UNCHANGED <<q, ebad>>
      [] r.ev = "BatchEnd" ->
            \* a remainder that is not retried any more: retries exhausted
            /\ ev' = [ev EXCEPT !.failed = IF o.rest # <<>> THEN @ \cup SeqRange(o.chain) ELSE @]
            /\ o' = ObsGiveUp(o)
            /\ q' = [q EXCEPT !.batch = <<>>]
            /\ UNCHANGED ebad
      [] r.ev = "Stall" -> ev' = [ev EXCEPT !.stalled = TRUE] /\ UNCHANGED <<o, q, ebad>>
      [] r.ev = "Unstall" -> ev' = [ev EXCEPT !.stalled = FALSE] /\ UNCHANGED <<o, q, ebad>>
      [] r.ev = "EmitBlocked" -> ebad' = ebad \cup {"EmitNeverBlocks"} /\ UNCHANGED <<o, q, ev>>
      [] r.ev = "ChanOther" -> ebad' = ebad \cup {"EmitNeverBlocks"} /\ UNCHANGED <<o, q, ev>>
      [] r.ev = "Fin" ->
            /\ ebad' = ebad \cup Flag(r.truncated = q.ntrunc, "DropsOldestCounted")
                            \cup Flag(r.formatFailed = Cardinality(ev.fmtFailed), "FormatFailCounted")
            /\ UNCHANGED <<o, q, ev>>

ENext ==
    /\ l <= Len(Rec)
    /\ l' = l + 1
    /\ LET r == Rec[l] IN
       IF r.ev \in {"reset", "fin"}
       THEN /\ (sid >= 0 => EVerdict)
            /\ o' = IF r.ev = "reset" THEN ObsInit(r.maxFiles, r.maxSize) ELSE o
            /\ q' = IF r.ev = "reset" THEN Q0(r.cap) ELSE q
            /\ ev' = Ev0
            /\ sbad' = {} /\ ebad' = {}
            /\ sid' = IF r.ev = "reset" THEN r.sid ELSE -1
       ELSE /\ Step(r)
            /\ sbad' = sbad \cup StateBadOf(o)
            /\ UNCHANGED sid

ESpec == EInit /\ [][ENext]_evars

ETraceAccepted ==
    LET d == TLCGet("stats").diameter IN
    IF d - 1 = Len(Rec) THEN TRUE
    ELSE Print(<<"UNMATCHED", d, IF d <= Len(Rec) THEN ToJson(Rec[d]) ELSE "end">>, FALSE)
=============================================================================
