---------------------------- MODULE BatcherLedger ----------------------------
(***************************************************************************)
(* The item ledger of the batching channel, distilled from Batcher.tla to  *)
(* what C06 (nothing lost, duplicated or reordered), C07 (a fired flush    *)
(* means everything accepted before it is resolved), C08 (bounded retry)   *)
(* and C09 (bounded queue) depend on - for ANY number of items, ANY        *)
(* capacity, ANY retry budget and ANY number of flush watchers.            *)
(*                                                                         *)
(* Items are numbered 1, 2, 3, ... in acceptance order.  Because a send    *)
(* only ever appends, a truncation clears the whole queue and a hand-off   *)
(* takes the whole queue, the pending queue is always the contiguous range *)
(* lo..n, so the state is integers and sets of integers:                   *)
(*   n       number of items accepted so far                               *)
(*   lo      first pending item (pending = lo..n)                          *)
(*   hi      highest item ever handed to the processor                     *)
(*   trunc   items cleared by a counted truncation                         *)
(*   done    items whose batch attempt has returned (ok, failed for good,  *)
(*           panicked, or retried without them)                            *)
(*   u       items handed out and not yet resolved (in flight or waiting   *)
(*           for a retry)                                                  *)
(*   orphan  items lost with a receiver that was dropped mid-batch         *)
(*   place, snap   where each flush watcher is, and how many items had     *)
(*           been accepted when it registered                              *)
(*                                                                         *)
(* TLAPS proves Spec => []Safe below; TLC checks that Batcher.tla          *)
(* implements this module under the refinement mapping in MCBatcher.tla    *)
(* (Batcher_ledger*.cfg), so the unbounded argument carries over to the    *)
(* implementation-shaped specification that the code is bound to.          *)
(***************************************************************************)
EXTENDS Naturals, FiniteSets, TLAPS

CONSTANTS Cap, MaxRetry, Watchers
ASSUME CapPos == Cap \in Nat /\ Cap >= 1
ASSUME RetryNat == MaxRetry \in Nat

VARIABLES n, lo, hi, isOpen, senderAlive, inBatch, dead,
          trunc, done, u, orphan, retries, place, snap
vars == <<n, lo, hi, isOpen, senderAlive, inBatch, dead,
          trunc, done, u, orphan, retries, place, snap>>

Places == {"none", "pend", "cur", "fired", "lost"}

Init ==
    /\ n = 0 /\ lo = 1 /\ hi = 0
    /\ isOpen = TRUE /\ senderAlive = TRUE /\ inBatch = FALSE /\ dead = FALSE
    /\ trunc = {} /\ done = {} /\ u = {} /\ orphan = {}
    /\ retries = 0
    /\ place = [w \in Watchers |-> "none"]
    /\ snap = [w \in Watchers |-> 0]

\* Sender::send: truncate-and-count when full, then the closed check, then push
Send ==
    /\ senderAlive
    /\ LET full == n - lo + 1 >= Cap IN
          /\ trunc' = IF full THEN trunc \cup (lo..n) ELSE trunc
          /\ lo' = IF full THEN n + 1 ELSE lo
    /\ n' = IF isOpen THEN n + 1 ELSE n
    /\ UNCHANGED <<hi, isOpen, senderAlive, inBatch, dead, done, u, orphan, retries, place, snap>>

\* Sender::try_send (and every attempt of a blocking send): push only when open and not full
TrySend ==
    /\ senderAlive
    /\ n' = IF isOpen /\ n - lo + 1 < Cap THEN n + 1 ELSE n
    /\ UNCHANGED <<lo, hi, isOpen, senderAlive, inBatch, dead, trunc, done, u, orphan, retries,
                   place, snap>>

\* Sender::when_flushed: fire at once when nothing is queued and no batch is out, else wait
Register(w) ==
    /\ senderAlive /\ place[w] = "none"
    /\ snap' = [snap EXCEPT ![w] = n]
    /\ place' = [place EXCEPT ![w] =
                    IF ~inBatch /\ (lo = n + 1 \/ ~isOpen)
                    THEN (IF dead THEN "lost" ELSE "fired")
                    ELSE "pend"]
    /\ UNCHANGED <<n, lo, hi, isOpen, senderAlive, inBatch, dead, trunc, done, u, orphan, retries>>

\* the receiver swaps a non-empty queue out; the waiting watchers go with the batch
Take ==
    /\ ~dead /\ u = {} /\ lo <= n
    /\ u' = lo..n /\ hi' = n /\ lo' = n + 1
    /\ inBatch' = TRUE /\ retries' = 0
    /\ place' = [w \in Watchers |-> IF place[w] = "pend" THEN "cur" ELSE place[w]]
    /\ UNCHANGED <<n, isOpen, senderAlive, dead, trunc, done, orphan, snap>>

\* the receiver finds the queue empty: the waiting watchers are notified now (F), or as
\* soon as a callback that blocks the receiver returns (the others)
TakeEmpty(F) ==
    /\ ~dead /\ u = {} /\ lo = n + 1
    /\ inBatch' = FALSE
    /\ place' = [w \in Watchers |-> IF place[w] = "pend"
                                    THEN (IF w \in F THEN "fired" ELSE "cur")
                                    ELSE place[w]]
    /\ UNCHANGED <<n, lo, hi, isOpen, senderAlive, dead, trunc, done, u, orphan, retries, snap>>

\* an attempt returns and asks for the non-empty remainder r to be retried
Retry(r) ==
    /\ ~dead /\ u # {} /\ r \subseteq u /\ r # {} /\ retries < MaxRetry
    /\ done' = done \cup (u \ r) /\ u' = r
    /\ retries' = retries + 1
    /\ UNCHANGED <<n, lo, hi, isOpen, senderAlive, inBatch, dead, trunc, orphan, place, snap>>

\* the last attempt returns (success, permanent failure, panic, budget exhausted): the
\* batch is resolved and its watchers are notified (F now, the others after a blocking callback)
Finish(F, giveUp) ==
    /\ ~dead /\ u # {}
    /\ done' = done \cup u /\ u' = {}
    /\ retries' = IF giveUp THEN retries + 1 ELSE retries
    /\ place' = [w \in Watchers |-> IF place[w] = "cur" /\ w \in F THEN "fired" ELSE place[w]]
    /\ UNCHANGED <<n, lo, hi, isOpen, senderAlive, inBatch, dead, trunc, orphan, snap>>

\* a callback that blocked the receiver returns: more watchers of a resolved hand-off fire
FireLater(F) ==
    /\ ~dead /\ u = {}
    /\ place' = [w \in Watchers |-> IF place[w] = "cur" /\ w \in F THEN "fired" ELSE place[w]]
    /\ UNCHANGED <<n, lo, hi, isOpen, senderAlive, inBatch, dead, trunc, done, u, orphan,
                   retries, snap>>

\* the last Sender is dropped
DropSender ==
    /\ senderAlive
    /\ senderAlive' = FALSE /\ isOpen' = FALSE
    /\ UNCHANGED <<n, lo, hi, inBatch, dead, trunc, done, u, orphan, retries, place, snap>>

\* the receiver is dropped at an await point: the batch in flight and its watchers are lost
Kill ==
    /\ ~dead
    /\ dead' = TRUE /\ isOpen' = FALSE
    /\ orphan' = orphan \cup u /\ u' = {}
    /\ place' = [w \in Watchers |-> IF place[w] = "cur" THEN "lost" ELSE place[w]]
    /\ UNCHANGED <<n, lo, hi, senderAlive, inBatch, trunc, done, retries, snap>>

Next ==
    \/ Send \/ TrySend \/ Take \/ DropSender \/ Kill
    \/ \E w \in Watchers : Register(w)
    \/ \E F \in SUBSET Watchers : TakeEmpty(F) \/ FireLater(F)
    \/ \E F \in SUBSET Watchers, g \in BOOLEAN : Finish(F, g)
    \/ \E r \in SUBSET u : Retry(r)

Spec == Init /\ [][Next]_vars

-----------------------------------------------------------------------------
(* The properties *)

Resolved == trunc \cup done

\* C09: the queue never holds more than Cap items
Bounded == n - lo + 1 <= Cap
\* C06: every accepted item is in exactly one place - cleared by a counted truncation,
\* resolved by the processor, out with the processor, lost with a dropped receiver, or
\* still pending - and hand-offs go strictly upwards (everything handed out lies below
\* everything still pending, and each hand-off is the whole range lo..n above hi)
NothingLost == \A x \in 1..n : x \in trunc \cup done \cup u \cup orphan \cup (lo..n)
NothingTwice ==
    /\ trunc \cap done = {} /\ trunc \cap u = {} /\ trunc \cap orphan = {}
    /\ done \cap u = {} /\ done \cap orphan = {} /\ u \cap orphan = {}
    /\ \A x \in trunc \cup done \cup u \cup orphan : x \in 1..(lo - 1)
InOrder == hi < lo /\ \A x \in u : x <= hi
\* C07: a watcher that fired saw everything accepted before it registered resolved
FlushMeansDone == \A w \in Watchers : place[w] = "fired" => \A x \in 1..snap[w] : x \in Resolved
\* C08: a batch is attempted at most MaxRetry + 1 times
RetryBounded == retries <= MaxRetry + 1
\* only a dropped receiver loses items
OrphanOnlyDead == orphan # {} => dead

Safe == Bounded /\ NothingLost /\ NothingTwice /\ InOrder /\ FlushMeansDone /\ RetryBounded
        /\ OrphanOnlyDead

-----------------------------------------------------------------------------
(* The inductive invariant *)

TypeOK ==
    /\ n \in Nat /\ lo \in Nat /\ hi \in Nat /\ retries \in Nat
    /\ isOpen \in BOOLEAN /\ senderAlive \in BOOLEAN /\ inBatch \in BOOLEAN /\ dead \in BOOLEAN
    /\ trunc \subseteq Nat /\ done \subseteq Nat /\ u \subseteq Nat /\ orphan \subseteq Nat
    /\ place \in [Watchers -> Places]
    /\ snap \in [Watchers -> Nat]

Range == 1 <= lo /\ lo <= n + 1
Covered == \A x \in 1..(lo - 1) : x \in trunc \cup done \cup u \cup orphan
Quiet == ~inBatch => u = {}
ClosedWhy == ~isOpen => (~senderAlive \/ dead)
RetryInv == retries <= MaxRetry + 1 /\ (u # {} => retries <= MaxRetry)
PendSnap == \A w \in Watchers : place[w] = "pend" => snap[w] <= n
CurSnap == \A w \in Watchers : place[w] = "cur" => snap[w] < lo

Inv ==
    /\ TypeOK /\ Range /\ Bounded /\ Covered /\ NothingTwice /\ InOrder /\ Quiet
    /\ OrphanOnlyDead /\ ClosedWhy /\ RetryInv /\ PendSnap /\ CurSnap /\ FlushMeansDone

LEMMA InitInv == Init => Inv
  BY CapPos, RetryNat DEF Init, Inv, TypeOK, Range, Bounded, Covered, NothingTwice, InOrder, Quiet, OrphanOnlyDead, ClosedWhy,
     RetryInv, PendSnap, CurSnap, FlushMeansDone, Resolved, Places

LEMMA InvSafe == Inv => Safe
  <1> SUFFICES ASSUME Inv PROVE Safe
    OBVIOUS
  <1>1. NothingLost
    <2> SUFFICES ASSUME NEW x \in 1..n PROVE x \in trunc \cup done \cup u \cup orphan \cup (lo..n)
      BY DEF NothingLost
    <2>1. CASE x < lo
      BY <2>1 DEF Inv, TypeOK, Range, Covered
    <2>2. CASE ~(x < lo)
      BY <2>2 DEF Inv, TypeOK, Range
    <2> QED BY <2>1, <2>2
  <1>2. RetryBounded
    BY DEF Inv, RetryInv, RetryBounded
  <1> QED
    BY <1>1, <1>2 DEF Inv, Safe

LEMMA SendInv == Inv /\ Send => Inv'
  <1> SUFFICES ASSUME Inv, Send PROVE Inv'
    OBVIOUS
  <1> USE CapPos, RetryNat
  <1>1. CASE n - lo + 1 >= Cap
    <2>1. trunc' = trunc \cup (lo..n) /\ lo' = n + 1 /\ n' \in Nat /\ n' >= n /\ n' <= n + 1
      BY <1>1 DEF Send, Inv, TypeOK
    <2>2. UNCHANGED <<hi, isOpen, senderAlive, inBatch, dead, done, u, orphan, retries, place, snap>>
      BY DEF Send
    <2>c1. TypeOK'
      BY <1>1, <2>1, <2>2 DEF Send, Inv, TypeOK, Range, Bounded, Covered, NothingTwice, InOrder, Quiet, OrphanOnlyDead, ClosedWhy,
     RetryInv, PendSnap, CurSnap, FlushMeansDone, Resolved, Places
    <2>c2. Range'
      BY <1>1, <2>1, <2>2 DEF Send, Inv, TypeOK, Range, Bounded, Covered, NothingTwice, InOrder, Quiet, OrphanOnlyDead, ClosedWhy,
     RetryInv, PendSnap, CurSnap, FlushMeansDone, Resolved, Places
    <2>c3. Bounded'
      BY <1>1, <2>1, <2>2 DEF Send, Inv, TypeOK, Range, Bounded, Covered, NothingTwice, InOrder, Quiet, OrphanOnlyDead, ClosedWhy,
     RetryInv, PendSnap, CurSnap, FlushMeansDone, Resolved, Places
    <2>c4. Covered'
      <3> SUFFICES ASSUME NEW x \in 1..n PROVE x \in (trunc \cup (lo..n)) \cup done \cup u \cup orphan
        BY <2>1, <2>2 DEF Covered, Inv, TypeOK
      <3>0. n \in Nat /\ lo \in Nat /\ 1 <= lo
        BY DEF Inv, TypeOK, Range
      <3>1. CASE x < lo
        <4>1. x \in 1..(lo - 1)
          BY <3>0, <3>1
        <4>2. x \in trunc \cup done \cup u \cup orphan
          BY <4>1 DEF Inv, Covered
        <4> QED BY <4>2
      <3>2. CASE ~(x < lo)
        <4>1. x \in lo..n
          BY <3>0, <3>2
        <4> QED BY <4>1
      <3> QED BY <3>1, <3>2
    <2>c5. NothingTwice'
      BY <1>1, <2>1, <2>2 DEF Send, Inv, TypeOK, Range, Bounded, Covered, NothingTwice, InOrder, Quiet, OrphanOnlyDead, ClosedWhy,
     RetryInv, PendSnap, CurSnap, FlushMeansDone, Resolved, Places
    <2>c6. InOrder'
      BY <1>1, <2>1, <2>2 DEF Send, Inv, TypeOK, Range, Bounded, Covered, NothingTwice, InOrder, Quiet, OrphanOnlyDead, ClosedWhy,
     RetryInv, PendSnap, CurSnap, FlushMeansDone, Resolved, Places
    <2>c7. Quiet'
      BY <1>1, <2>1, <2>2 DEF Send, Inv, TypeOK, Range, Bounded, Covered, NothingTwice, InOrder, Quiet, OrphanOnlyDead, ClosedWhy,
     RetryInv, PendSnap, CurSnap, FlushMeansDone, Resolved, Places
    <2>c8. OrphanOnlyDead'
      BY <1>1, <2>1, <2>2 DEF Send, Inv, TypeOK, Range, Bounded, Covered, NothingTwice, InOrder, Quiet, OrphanOnlyDead, ClosedWhy,
     RetryInv, PendSnap, CurSnap, FlushMeansDone, Resolved, Places
    <2>c9. ClosedWhy'
      BY <1>1, <2>1, <2>2 DEF Send, Inv, TypeOK, Range, Bounded, Covered, NothingTwice, InOrder, Quiet, OrphanOnlyDead, ClosedWhy,
     RetryInv, PendSnap, CurSnap, FlushMeansDone, Resolved, Places
    <2>c10. RetryInv'
      BY <1>1, <2>1, <2>2 DEF Send, Inv, TypeOK, Range, Bounded, Covered, NothingTwice, InOrder, Quiet, OrphanOnlyDead, ClosedWhy,
     RetryInv, PendSnap, CurSnap, FlushMeansDone, Resolved, Places
    <2>c11. PendSnap'
      BY <1>1, <2>1, <2>2 DEF Send, Inv, TypeOK, Range, Bounded, Covered, NothingTwice, InOrder, Quiet, OrphanOnlyDead, ClosedWhy,
     RetryInv, PendSnap, CurSnap, FlushMeansDone, Resolved, Places
    <2>c12. CurSnap'
      BY <1>1, <2>1, <2>2 DEF Send, Inv, TypeOK, Range, Bounded, Covered, NothingTwice, InOrder, Quiet, OrphanOnlyDead, ClosedWhy,
     RetryInv, PendSnap, CurSnap, FlushMeansDone, Resolved, Places
    <2>c13. FlushMeansDone'
      BY <1>1, <2>1, <2>2 DEF Send, Inv, TypeOK, Range, Bounded, Covered, NothingTwice, InOrder, Quiet, OrphanOnlyDead, ClosedWhy,
     RetryInv, PendSnap, CurSnap, FlushMeansDone, Resolved, Places
    <2> QED
      BY <2>c1, <2>c2, <2>c3, <2>c4, <2>c5, <2>c6, <2>c7, <2>c8, <2>c9, <2>c10, <2>c11, <2>c12, <2>c13 DEF Inv
  <1>2. CASE ~(n - lo + 1 >= Cap)
    <2>1. trunc' = trunc /\ lo' = lo /\ n' \in Nat /\ n' >= n /\ n' <= n + 1
      BY <1>2 DEF Send, Inv, TypeOK
    <2>2. UNCHANGED <<hi, isOpen, senderAlive, inBatch, dead, done, u, orphan, retries, place, snap>>
      BY DEF Send
    <2>c1. TypeOK'
      BY <1>2, <2>1, <2>2 DEF Send, Inv, TypeOK, Range, Bounded, Covered, NothingTwice, InOrder, Quiet, OrphanOnlyDead, ClosedWhy,
     RetryInv, PendSnap, CurSnap, FlushMeansDone, Resolved, Places
    <2>c2. Range'
      BY <1>2, <2>1, <2>2 DEF Send, Inv, TypeOK, Range, Bounded, Covered, NothingTwice, InOrder, Quiet, OrphanOnlyDead, ClosedWhy,
     RetryInv, PendSnap, CurSnap, FlushMeansDone, Resolved, Places
    <2>c3. Bounded'
      BY <1>2, <2>1, <2>2 DEF Send, Inv, TypeOK, Range, Bounded, Covered, NothingTwice, InOrder, Quiet, OrphanOnlyDead, ClosedWhy,
     RetryInv, PendSnap, CurSnap, FlushMeansDone, Resolved, Places
    <2>c4. Covered'
      BY <1>2, <2>1, <2>2 DEF Send, Inv, TypeOK, Range, Bounded, Covered, NothingTwice, InOrder, Quiet, OrphanOnlyDead, ClosedWhy,
     RetryInv, PendSnap, CurSnap, FlushMeansDone, Resolved, Places
    <2>c5. NothingTwice'
      BY <1>2, <2>1, <2>2 DEF Send, Inv, TypeOK, Range, Bounded, Covered, NothingTwice, InOrder, Quiet, OrphanOnlyDead, ClosedWhy,
     RetryInv, PendSnap, CurSnap, FlushMeansDone, Resolved, Places
    <2>c6. InOrder'
      BY <1>2, <2>1, <2>2 DEF Send, Inv, TypeOK, Range, Bounded, Covered, NothingTwice, InOrder, Quiet, OrphanOnlyDead, ClosedWhy,
     RetryInv, PendSnap, CurSnap, FlushMeansDone, Resolved, Places
    <2>c7. Quiet'
      BY <1>2, <2>1, <2>2 DEF Send, Inv, TypeOK, Range, Bounded, Covered, NothingTwice, InOrder, Quiet, OrphanOnlyDead, ClosedWhy,
     RetryInv, PendSnap, CurSnap, FlushMeansDone, Resolved, Places
    <2>c8. OrphanOnlyDead'
      BY <1>2, <2>1, <2>2 DEF Send, Inv, TypeOK, Range, Bounded, Covered, NothingTwice, InOrder, Quiet, OrphanOnlyDead, ClosedWhy,
     RetryInv, PendSnap, CurSnap, FlushMeansDone, Resolved, Places
    <2>c9. ClosedWhy'
      BY <1>2, <2>1, <2>2 DEF Send, Inv, TypeOK, Range, Bounded, Covered, NothingTwice, InOrder, Quiet, OrphanOnlyDead, ClosedWhy,
     RetryInv, PendSnap, CurSnap, FlushMeansDone, Resolved, Places
    <2>c10. RetryInv'
      BY <1>2, <2>1, <2>2 DEF Send, Inv, TypeOK, Range, Bounded, Covered, NothingTwice, InOrder, Quiet, OrphanOnlyDead, ClosedWhy,
     RetryInv, PendSnap, CurSnap, FlushMeansDone, Resolved, Places
    <2>c11. PendSnap'
      BY <1>2, <2>1, <2>2 DEF Send, Inv, TypeOK, Range, Bounded, Covered, NothingTwice, InOrder, Quiet, OrphanOnlyDead, ClosedWhy,
     RetryInv, PendSnap, CurSnap, FlushMeansDone, Resolved, Places
    <2>c12. CurSnap'
      BY <1>2, <2>1, <2>2 DEF Send, Inv, TypeOK, Range, Bounded, Covered, NothingTwice, InOrder, Quiet, OrphanOnlyDead, ClosedWhy,
     RetryInv, PendSnap, CurSnap, FlushMeansDone, Resolved, Places
    <2>c13. FlushMeansDone'
      BY <1>2, <2>1, <2>2 DEF Send, Inv, TypeOK, Range, Bounded, Covered, NothingTwice, InOrder, Quiet, OrphanOnlyDead, ClosedWhy,
     RetryInv, PendSnap, CurSnap, FlushMeansDone, Resolved, Places
    <2> QED
      BY <2>c1, <2>c2, <2>c3, <2>c4, <2>c5, <2>c6, <2>c7, <2>c8, <2>c9, <2>c10, <2>c11, <2>c12, <2>c13 DEF Inv
  <1> QED BY <1>1, <1>2

LEMMA TrySendInv == Inv /\ TrySend => Inv'
  BY CapPos, RetryNat DEF TrySend, Inv, TypeOK, Range, Bounded, Covered, NothingTwice, InOrder, Quiet, OrphanOnlyDead, ClosedWhy,
     RetryInv, PendSnap, CurSnap, FlushMeansDone, Resolved, Places

LEMMA RegisterInv == ASSUME NEW w \in Watchers PROVE Inv /\ Register(w) => Inv'
  <1> SUFFICES ASSUME Inv, Register(w) PROVE Inv'
    OBVIOUS
  <1> USE CapPos, RetryNat
  <1>1. CASE ~inBatch /\ (lo = n + 1 \/ ~isOpen)
    <2>1. CASE dead
      BY <1>1, <2>1 DEF Register, Inv, TypeOK, Range, Bounded, Covered, NothingTwice, InOrder, Quiet, OrphanOnlyDead, ClosedWhy,
     RetryInv, PendSnap, CurSnap, FlushMeansDone, Resolved, Places
    <2>2. CASE ~dead
      <3>1. lo = n + 1 /\ u = {} /\ orphan = {}
        <4>1. senderAlive
          BY DEF Register
        <4>2. isOpen
          BY <4>1, <2>2 DEF Inv, ClosedWhy, TypeOK
        <4>3. orphan = {}
          BY <2>2 DEF Inv, OrphanOnlyDead
        <4>4. u = {}
          BY <1>1 DEF Inv, Quiet
        <4> QED BY <1>1, <4>2, <4>3, <4>4
      <3>2. \A x \in 1..n : x \in Resolved
        <4> SUFFICES ASSUME NEW x \in 1..n PROVE x \in trunc \cup done
          BY DEF Resolved
        <4>1. x \in 1..(lo - 1)
          BY <3>1 DEF Inv, TypeOK
        <4>2. x \in trunc \cup done \cup u \cup orphan
          BY <4>1 DEF Inv, Covered
        <4> QED BY <4>2, <3>1
      <3> QED
        BY <1>1, <2>2, <3>1, <3>2 DEF Register, Inv, TypeOK, Range, Bounded, Covered, NothingTwice, InOrder, Quiet, OrphanOnlyDead, ClosedWhy,
     RetryInv, PendSnap, CurSnap, FlushMeansDone, Resolved, Places
    <2> QED BY <2>1, <2>2
  <1>2. CASE ~(~inBatch /\ (lo = n + 1 \/ ~isOpen))
    BY <1>2 DEF Register, Inv, TypeOK, Range, Bounded, Covered, NothingTwice, InOrder, Quiet, OrphanOnlyDead, ClosedWhy,
     RetryInv, PendSnap, CurSnap, FlushMeansDone, Resolved, Places
  <1> QED BY <1>1, <1>2

LEMMA TakeInv == Inv /\ Take => Inv'
  <1> SUFFICES ASSUME Inv, Take PROVE Inv'
    OBVIOUS
  <1> USE CapPos, RetryNat
  <1>1. u = {} /\ lo <= n /\ u' = lo..n /\ hi' = n /\ lo' = n + 1 /\ inBatch' = TRUE /\ retries' = 0
    BY DEF Take
  <1>2. UNCHANGED <<n, isOpen, senderAlive, dead, trunc, done, orphan, snap>>
    BY DEF Take
  <1>3. place' = [w \in Watchers |-> IF place[w] = "pend" THEN "cur" ELSE place[w]]
    BY DEF Take
  <1>c1. TypeOK'
    BY <1>1, <1>2, <1>3 DEF Take, Inv, TypeOK, Range, Bounded, Covered, NothingTwice, InOrder, Quiet, OrphanOnlyDead, ClosedWhy,
     RetryInv, PendSnap, CurSnap, FlushMeansDone, Resolved, Places
  <1>c2. Range'
    BY <1>1, <1>2, <1>3 DEF Take, Inv, TypeOK, Range, Bounded, Covered, NothingTwice, InOrder, Quiet, OrphanOnlyDead, ClosedWhy,
     RetryInv, PendSnap, CurSnap, FlushMeansDone, Resolved, Places
  <1>c3. Bounded'
    BY <1>1, <1>2, <1>3 DEF Take, Inv, TypeOK, Range, Bounded, Covered, NothingTwice, InOrder, Quiet, OrphanOnlyDead, ClosedWhy,
     RetryInv, PendSnap, CurSnap, FlushMeansDone, Resolved, Places
  <1>c4. Covered'
    <2> SUFFICES ASSUME NEW x \in 1..n PROVE x \in trunc \cup done \cup (lo..n) \cup orphan
      BY <1>1, <1>2 DEF Covered, Inv, TypeOK
    <2>0. n \in Nat /\ lo \in Nat /\ 1 <= lo
      BY DEF Inv, TypeOK, Range
    <2>1. CASE x < lo
      <3>1. x \in 1..(lo - 1)
        BY <2>0, <2>1
      <3>2. x \in trunc \cup done \cup u \cup orphan
        BY <3>1 DEF Inv, Covered
      <3> QED BY <3>2, <1>1
    <2>2. CASE ~(x < lo)
      <3>1. x \in lo..n
        BY <2>0, <2>2
      <3> QED BY <3>1
    <2> QED BY <2>1, <2>2
  <1>c5. NothingTwice'
    BY <1>1, <1>2, <1>3 DEF Take, Inv, TypeOK, Range, Bounded, Covered, NothingTwice, InOrder, Quiet, OrphanOnlyDead, ClosedWhy,
     RetryInv, PendSnap, CurSnap, FlushMeansDone, Resolved, Places
  <1>c6. InOrder'
    BY <1>1, <1>2, <1>3 DEF Take, Inv, TypeOK, Range, Bounded, Covered, NothingTwice, InOrder, Quiet, OrphanOnlyDead, ClosedWhy,
     RetryInv, PendSnap, CurSnap, FlushMeansDone, Resolved, Places
  <1>c7. Quiet'
    BY <1>1, <1>2, <1>3 DEF Take, Inv, TypeOK, Range, Bounded, Covered, NothingTwice, InOrder, Quiet, OrphanOnlyDead, ClosedWhy,
     RetryInv, PendSnap, CurSnap, FlushMeansDone, Resolved, Places
  <1>c8. OrphanOnlyDead'
    BY <1>1, <1>2, <1>3 DEF Take, Inv, TypeOK, Range, Bounded, Covered, NothingTwice, InOrder, Quiet, OrphanOnlyDead, ClosedWhy,
     RetryInv, PendSnap, CurSnap, FlushMeansDone, Resolved, Places
  <1>c9. ClosedWhy'
    BY <1>1, <1>2, <1>3 DEF Take, Inv, TypeOK, Range, Bounded, Covered, NothingTwice, InOrder, Quiet, OrphanOnlyDead, ClosedWhy,
     RetryInv, PendSnap, CurSnap, FlushMeansDone, Resolved, Places
  <1>c10. RetryInv'
    BY <1>1, <1>2, <1>3 DEF Take, Inv, TypeOK, Range, Bounded, Covered, NothingTwice, InOrder, Quiet, OrphanOnlyDead, ClosedWhy,
     RetryInv, PendSnap, CurSnap, FlushMeansDone, Resolved, Places
  <1>c11. PendSnap'
    BY <1>1, <1>2, <1>3 DEF Take, Inv, TypeOK, Range, Bounded, Covered, NothingTwice, InOrder, Quiet, OrphanOnlyDead, ClosedWhy,
     RetryInv, PendSnap, CurSnap, FlushMeansDone, Resolved, Places
  <1>c12. CurSnap'
    BY <1>1, <1>2, <1>3 DEF Take, Inv, TypeOK, Range, Bounded, Covered, NothingTwice, InOrder, Quiet, OrphanOnlyDead, ClosedWhy,
     RetryInv, PendSnap, CurSnap, FlushMeansDone, Resolved, Places
  <1>c13. FlushMeansDone'
    BY <1>1, <1>2, <1>3 DEF Take, Inv, TypeOK, Range, Bounded, Covered, NothingTwice, InOrder, Quiet, OrphanOnlyDead, ClosedWhy,
     RetryInv, PendSnap, CurSnap, FlushMeansDone, Resolved, Places
  <1> QED
    BY <1>c1, <1>c2, <1>c3, <1>c4, <1>c5, <1>c6, <1>c7, <1>c8, <1>c9, <1>c10, <1>c11, <1>c12, <1>c13 DEF Inv

LEMMA TakeEmptyInv == ASSUME NEW F \in SUBSET Watchers PROVE Inv /\ TakeEmpty(F) => Inv'
  <1> SUFFICES ASSUME Inv, TakeEmpty(F) PROVE Inv'
    OBVIOUS
  <1> USE CapPos, RetryNat
  <1>1. orphan = {} /\ u = {} /\ lo = n + 1
    BY DEF TakeEmpty, Inv, TypeOK, Range, Bounded, Covered, NothingTwice, InOrder, Quiet, OrphanOnlyDead, ClosedWhy,
     RetryInv, PendSnap, CurSnap, FlushMeansDone, Resolved, Places
  <1>2. \A x \in 1..n : x \in Resolved
    BY <1>1 DEF Inv, TypeOK, Range, Bounded, Covered, NothingTwice, InOrder, Quiet, OrphanOnlyDead, ClosedWhy,
     RetryInv, PendSnap, CurSnap, FlushMeansDone, Resolved, Places
  <1> QED
    BY <1>1, <1>2 DEF TakeEmpty, Inv, TypeOK, Range, Bounded, Covered, NothingTwice, InOrder, Quiet, OrphanOnlyDead, ClosedWhy,
     RetryInv, PendSnap, CurSnap, FlushMeansDone, Resolved, Places

LEMMA RetryInv_ == ASSUME NEW r \in SUBSET u PROVE Inv /\ Retry(r) => Inv'
  BY CapPos, RetryNat DEF Retry, Inv, TypeOK, Range, Bounded, Covered, NothingTwice, InOrder, Quiet, OrphanOnlyDead, ClosedWhy,
     RetryInv, PendSnap, CurSnap, FlushMeansDone, Resolved, Places

LEMMA FinishInv == ASSUME NEW F \in SUBSET Watchers, NEW g \in BOOLEAN
                   PROVE Inv /\ Finish(F, g) => Inv'
  <1> SUFFICES ASSUME Inv, Finish(F, g) PROVE Inv'
    OBVIOUS
  <1> USE CapPos, RetryNat
  <1>1. orphan = {}
    BY DEF Finish, Inv, TypeOK, Range, Bounded, Covered, NothingTwice, InOrder, Quiet, OrphanOnlyDead, ClosedWhy,
     RetryInv, PendSnap, CurSnap, FlushMeansDone, Resolved, Places
  <1>2. \A x \in 1..(lo - 1) : x \in trunc \cup done'
    BY <1>1 DEF Finish, Inv, TypeOK, Range, Bounded, Covered, NothingTwice, InOrder, Quiet, OrphanOnlyDead, ClosedWhy,
     RetryInv, PendSnap, CurSnap, FlushMeansDone, Resolved, Places
  <1> QED
    BY <1>1, <1>2 DEF Finish, Inv, TypeOK, Range, Bounded, Covered, NothingTwice, InOrder, Quiet, OrphanOnlyDead, ClosedWhy,
     RetryInv, PendSnap, CurSnap, FlushMeansDone, Resolved, Places

LEMMA FireLaterInv == ASSUME NEW F \in SUBSET Watchers PROVE Inv /\ FireLater(F) => Inv'
  <1> SUFFICES ASSUME Inv, FireLater(F) PROVE Inv'
    OBVIOUS
  <1> USE CapPos, RetryNat
  <1>1. orphan = {} /\ u = {}
    BY DEF FireLater, Inv, TypeOK, Range, Bounded, Covered, NothingTwice, InOrder, Quiet, OrphanOnlyDead, ClosedWhy,
     RetryInv, PendSnap, CurSnap, FlushMeansDone, Resolved, Places
  <1>2. \A x \in 1..(lo - 1) : x \in Resolved
    BY <1>1 DEF Inv, TypeOK, Range, Bounded, Covered, NothingTwice, InOrder, Quiet, OrphanOnlyDead, ClosedWhy,
     RetryInv, PendSnap, CurSnap, FlushMeansDone, Resolved, Places
  <1> QED
    BY <1>1, <1>2 DEF FireLater, Inv, TypeOK, Range, Bounded, Covered, NothingTwice, InOrder, Quiet, OrphanOnlyDead, ClosedWhy,
     RetryInv, PendSnap, CurSnap, FlushMeansDone, Resolved, Places

LEMMA DropSenderInv == Inv /\ DropSender => Inv'
  BY CapPos, RetryNat DEF DropSender, Inv, TypeOK, Range, Bounded, Covered, NothingTwice, InOrder, Quiet, OrphanOnlyDead, ClosedWhy,
     RetryInv, PendSnap, CurSnap, FlushMeansDone, Resolved, Places

LEMMA KillInv == Inv /\ Kill => Inv'
  BY CapPos, RetryNat DEF Kill, Inv, TypeOK, Range, Bounded, Covered, NothingTwice, InOrder, Quiet, OrphanOnlyDead, ClosedWhy,
     RetryInv, PendSnap, CurSnap, FlushMeansDone, Resolved, Places

LEMMA StutterInv == Inv /\ UNCHANGED vars => Inv'
  BY DEF vars, Inv, TypeOK, Range, Bounded, Covered, NothingTwice, InOrder, Quiet, OrphanOnlyDead, ClosedWhy,
     RetryInv, PendSnap, CurSnap, FlushMeansDone, Resolved, Places

THEOREM Safety == Spec => []Safe
<1>1. Inv /\ [Next]_vars => Inv'
  BY SendInv, TrySendInv, RegisterInv, TakeInv, TakeEmptyInv, RetryInv_, FinishInv, FireLaterInv,
     DropSenderInv, KillInv, StutterInv DEF Next
<1> QED BY InitInv, InvSafe, <1>1, PTL DEF Spec
=============================================================================
