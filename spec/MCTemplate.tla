---------------------------- MODULE MCTemplate ----------------------------
EXTENDS Template, Json

\* UTF-8: a = 61, é = C3 A9, è = C3 A8 (shares the lead byte with é), 😀 = F0 9F 98 80
MC_CharBytes == ("a" :> <<97>>) @@ ("é" :> <<195, 169>>) @@ ("è" :> <<195, 168>>)
                @@ ("😀" :> <<240, 159, 152, 128>>)

\* property sets used for rendering: absent labels, duplicates (first wins), empty label,
\* empty value, non-ASCII key and value
PropSeq == <<
    <<>>,
    << <<"x", "1">> >>,
    << <<"y", "é">>, <<"x", "1">>, <<"x", "2">>, <<"y", "">> >>,
    << <<"", "E">>, <<"x", "">>, <<"é", "v">> >>
>>

\* a few templates whose holes carry a formatter (outside the equality domain)
T(cs) == TextPart(cs)
FmtTemplates == {
    <<HolePart("x", 1)>>,
    <<T(<<"a">>), HolePart("x", 1), T(<<"é">>)>>,
    <<HolePart("y", 1), HolePart("x", 0)>>,
    <<T(<<>>), HolePart("", 1), T(<<>>), T(<<"a">>)>>,
    <<T(<<"a">>), T(<<"é">>), HolePart("q", 1), HolePart("x", 1), T(<<"a">>)>>,
    \* text with characters Debug may escape (outside the equality domain; see DebugDontCare)
    <<T(<<"a", "\"">>), HolePart("x", 0), T(<<"\\">>)>>,
    <<T(<<"\"">>)>>
}
RenderDomain == Templates \cup FmtTemplates

\* Norm(a) = Norm(b) => same rendering, for every property set
RenderIndependentOfSplit ==
    Norm(a) = Norm(b) => \A i \in 1..Len(PropSeq) :
        /\ Render(a, PropSeq[i]) = Render(b, PropSeq[i])
        /\ Events(a, PropSeq[i]) = Events(b, PropSeq[i])

\* the cursor algorithm is an equivalence relation (all triples of templates of <= 2 parts)
SmallTemplates == {t \in Templates : Len(t) <= 2}
EqRel == {p \in SmallTemplates \X SmallTemplates : CursorEq(p[1], p[2]) = "true"}
NoPanicSmall == \A p \in SmallTemplates \X SmallTemplates : CursorEq(p[1], p[2]) \in {"true", "false"}
Equivalence ==
    /\ NoPanicSmall
    /\ \A x \in SmallTemplates : <<x, x>> \in EqRel
    /\ \A p \in EqRel : <<p[2], p[1]>> \in EqRel
    /\ \A p \in EqRel : \A z \in SmallTemplates : <<p[2], z>> \in EqRel => <<p[1], z>> \in EqRel
EquivalenceInv == Equivalence

\* spec -> code: one line per template with its normal form and the predicted renderings
TemplateLine(t) ==
    PrintT(<<"TEMPLATE", ToJson([
        parts |-> t,
        norm |-> EqView(Norm(t)),
        indomain |-> t \in Templates,
        renders |-> [i \in 1..Len(PropSeq) |->
                        [text |-> Render(t, PropSeq[i]), events |-> Events(t, PropSeq[i]),
                         via |-> [ch \in RenderChannels |-> RenderVia(ch, t, PropSeq[i])]]],
        tplvia |-> [ch \in TemplateChannels |-> TemplateVia(ch, t)],
        literal |-> AsLiteral(t)])>>)

\* every channel gives the rendered text (Debug: quoted), whatever the split
ChannelsAgree ==
    \A i \in 1..Len(PropSeq) : \A ch \in RenderChannels \ {"debug"} :
        /\ RenderVia(ch, a, PropSeq[i]) = Render(a, PropSeq[i])
        /\ (Norm(a) = Norm(b) => RenderVia(ch, a, PropSeq[i]) = RenderVia(ch, b, PropSeq[i]))

\* ---- macro literals (emit::tpl!, emit::evt!, emit::emit!): a literal is a sequence of tokens
\*   c: a character   eo: `{{`   ec: `}}`   h: a hole in one of the forms
\*   id `{x}`, expr `{y: "Y1"}` (tpl!: `{y}`), fmt `{#[emit::fmt("?")] x2}`, key `{#[emit::key("k é")] z}`
\* quantifier restriction (the macros reject duplicate keys): hole labels are distinct
Tok(k, c, l, form) == [k |-> k, c |-> c, l |-> l, form |-> form]
MacroTokens == {Tok("c", "a", "", ""), Tok("c", "é", "", ""), Tok("c", " ", "", ""),
                Tok("eo", "", "", ""), Tok("ec", "", "", ""),
                Tok("h", "", "x", "id"), Tok("h", "", "y", "expr"), Tok("h", "", "x2", "fmt"),
                Tok("h", "", "k é", "key")}
\* further hole forms (in literals of <= 2 tokens): the named-argument forms of the attributes,
\*   keyname `{#[emit::key(name: "k2")] z2}`, keyexpr `{#[emit::key(name: KEY3)] z3}` (KEY3 a const),
\*   fmtnamed `{#[emit::fmt(flags: "?")] x3}`
MoreTokens == {Tok("h", "", "k2", "keyname"), Tok("h", "", "k3", "keyexpr"), Tok("h", "", "x3", "fmtnamed")}
DistinctHoles(q) == \A i, j \in 1..Len(q) : (i < j /\ q[i].k = "h") => q[i] # q[j]
MacroLits == UNION {{q \in [1..n -> MacroTokens] : DistinctHoles(q)} : n \in 0..3}
             \cup UNION {{q \in [1..n -> MacroTokens \cup MoreTokens] :
                            DistinctHoles(q) /\ \E i \in 1..n : q[i] \in MoreTokens} : n \in 1..2}
\* the macros every literal is expanded by (level A: the same template, the same message)
\* "hooks": the expansion written out with every hook call dispatched through its trait
\* (`__PrivateFmtHook for Part`, `__PrivateKeyHook for Key`), which is what a call site gets where the
\* inherent const fns of the same names are not in reach (generic code over the hook traits)
MacroForms == {"tpl", "evt", "emit", "format", "hooks"}
MacroPart(tok) ==
    IF tok.k = "c" THEN TextPart(<<tok.c>>)
    ELSE IF tok.k = "eo" THEN TextPart(<<"{">>)
    ELSE IF tok.k = "ec" THEN TextPart(<<"}">>)
    ELSE HolePart(tok.l, IF tok.form \in {"fmt", "fmtnamed"} THEN 2 ELSE 0)
MacroParts(q) == [i \in 1..Len(q) |-> MacroPart(q[i])]
\* the values in scope at the call site
MacroProps == << <<"x", "X0">>, <<"y", "Y1">>, <<"x2", "Q">>, <<"k é", "Z2">>, <<"k2", "Z3">>, <<"k3", "Z4">>, <<"x3", "R">> >>
MacroLine(q) ==
    LET t == MacroParts(q) IN
    PrintT(<<"MACRO", ToJson([toks |-> q, parts |-> t, norm |-> Norm(t),
                              msg |-> Render(t, MacroProps), raw |-> Render(t, <<>>)])>>)

\* ---- format flags of macro holes: `[{#[emit::fmt("FLAGS")] v}]` with v an integer, a float or a
\* string.  kind "pad": FLAGS is [fill]align width only and the expected text is the specification's
\* (Pad of the Display text of the value; the fill may be any character, also one that is format-spec
\* syntax such as `:`, `0`, `#`, `?`); kind "std": sign / `0` / precision / `?` / `x?` flags, whose
\* expected text is std's `format!("{:FLAGS}", v)` of the same typed value, computed at the call site
\* (std is trusted; Value offers Display and Debug only, so type characters like `x`, `b`, `e` alone
\* do not compile and are outside the family).
FF(flags, kind, fill, align, width) == [flags |-> flags, kind |-> kind, fill |-> fill, align |-> align, width |-> width]
FmtFlagSet == {
    FF(":>4", "pad", ":", ">", 4), FF(":<6", "pad", ":", "<", 6), FF(":^5", "pad", ":", "^", 5),
    FF("*^7", "pad", "*", "^", 7), FF("0>5", "pad", "0", ">", 5), FF("#>3", "pad", "#", ">", 3),
    FF("?<4", "pad", "?", "<", 4), FF(" >3", "pad", " ", ">", 3), FF("é^4", "pad", "é", "^", 4),
    FF(">3", "pad", " ", ">", 3), FF("<3", "pad", " ", "<", 3), FF("^6", "pad", " ", "^", 6),
    FF(".^1", "pad", ".", "^", 1), FF("+<5", "pad", "+", "<", 5), FF("x>6", "pad", "x", ">", 6),
    FF(">8.3", "std", "", "", 0), FF("08.2", "std", "", "", 0), FF("+", "std", "", "", 0),
    FF("#?", "std", "", "", 0), FF("?", "std", "", "", 0), FF("05", "std", "", "", 0),
    FF(".0", "std", "", "", 0), FF("^9.1", "std", "", "", 0), FF("+08.3", "std", "", "", 0),
    FF("x?", "std", "", "", 0), FF("#x?", "std", "", "", 0), FF(":>+6", "std", "", "", 0),
    FF(".3", "std", "", "", 0), FF(":>08.1", "std", "", "", 0), FF("", "std", "", "", 0)}
\* the attribute argument is the literal (`"FLAGS"`) or named (`flags: "FLAGS"`; for one value)
FmtArgForms == {"lit", "named"}
FV(ty, src, text) == [ty |-> ty, src |-> src, text |-> text]
FmtValues == {FV("i", "42", <<"4", "2">>), FV("i", "-7", <<"-", "7">>),
              FV("f", "3.14159", <<"3", ".", "1", "4", "1", "5", "9">>), FV("f", "-0.5", <<"-", "0", ".", "5">>),
              FV("s", "ab", <<"a", "b">>), FV("s", "é", <<"é">>)}
Rep(c, n) == [i \in 1..n |-> c]
Pad(text, fill, align, width) ==
    IF Len(text) >= width THEN text
    ELSE LET k == width - Len(text) IN
         IF align = ">" THEN Rep(fill, k) \o text
         ELSE IF align = "<" THEN text \o Rep(fill, k)
         ELSE Rep(fill, k \div 2) \o text \o Rep(fill, k - k \div 2)
FmtSiteLine(ff, fv, af) ==
    PrintT(<<"FMTSITE", ToJson([flags |-> ff.flags, kind |-> ff.kind, ty |-> fv.ty, src |-> fv.src, arg |-> af,
        raw |-> "[{v}]",
        expect |-> IF ff.kind = "pad" THEN "[" \o ConcatS(Pad(fv.text, ff.fill, ff.align, ff.width)) \o "]" ELSE ""])>>)

ASSUME \A q \in MacroLits : MacroLine(q)
ASSUME \A ff \in FmtFlagSet, fv \in FmtValues, af \in FmtArgForms :
    (af = "lit" \/ fv.src = "ab") => FmtSiteLine(ff, fv, af)
ASSUME PrintT(<<"MACROFORMS", ToJson(MacroForms)>>)
ASSUME PrintT(<<"PROPS", ToJson(PropSeq)>>)
ASSUME \A t \in RenderDomain : TemplateLine(t)
=============================================================================
